/*
 * lfht_conc.c - C05 / C06: concurrent behaviour of cds_lfht.
 *
 * Real table, real pinned threads, recorded histories, oracles.
 *
 * --mode=episodes   (lfht_conc_ep.h)  many short histories: 2-4 workers x 1-6 operations on 2-4 HOT keys
 *                   (colliding hashes) next to RESIDENT nodes that are never touched during an episode,
 *                   plus a reader thread doing full first/next traversals and lookups of residents.
 *                   Per-key sub-histories are checked against a multiset-of-node-ids model (lfht_conc_lin.h);
 *                   duplicate walks and traversals against presence intervals; residents must be seen
 *                   exactly once by every traversal and found by every lookup.
 *                   --discipline=unique restricts the updates to add_unique/add_replace/replace/del (C06).
 * --mode=uniq       (lfht_conc_uniq.h) C06 hammer: 2-8 updaters on 1-3 keys under the unique-key
 *                   discipline, walkers asserting "never two nodes with one key in one walk", continuous
 *                   presence of a replace-only key, ownership counter per node life, conservation.
 * --mode=rounds     (lfht_conc_uniq.h) C06 winner accounting: K threads add_unique the same absent key.
 * --mode=finding-addu (lfht_conc_ep.h) drives on purpose the interleaving of the known C05 finding
 *                   "add_unique / add_replace versus plain add of the same key" (findings/c05_addu_dup.c).
 *
 * Linearizability search: lfht_conc_lin.h (private: program order of one thread is exact, the TSC margin
 * only applies between threads); lin.c is only used to print histories.
 *
 * Resize running concurrently (--resize=): none | explicit (resizer thread cycling cds_lfht_resize over
 * 1..64..1, powers of two and not) | auto (CDS_LFHT_AUTO_RESIZE, chain growth) | acct (AUTO_RESIZE |
 * ACCOUNTING with COUNT_COMMIT_ORDER lowered).  Allocators order / chunk / mmap / default rotate per
 * table generation.  Delays are injected at the URCU_VP_HT_* hook points through vp_user_hook (private
 * table of probabilities accessed with relaxed atomics, so that the tsan variant stays silent while the
 * resizer / library worker run during reconfiguration).
 */
#include "vp.h"
#include "vp_flavor.h"
#include "vp_tun.h"
#include "lin.h"
#include <limits.h>
#include "rculfhash-internal.h"

#define ND_HOT 0x686f7421u
#define ND_RES 0x72657321u
#define ND_POISON 0xdeadbeefu
#define ND_BAL 0x62616c21u	/* ballast (uniq mode): comes and goes during a phase, ignored by the oracles */
#define POISON_BYTE 0x5a
#define MAXRES 640
#define MAXHOT 4

struct hnode {
	struct cds_lfht_node n;
	uint64_t key;
	unsigned long hash;
	uint32_t magic;
	uint32_t lid;		/* hot: local id inside its episode / round; resident: index in g_res[] */
	uint64_t epoch;		/* hot: episode / round / phase number */
	int32_t kidx;
	int32_t owner;		/* ownership counter of this node life (atomic) */
	uint64_t rm_ts;		/* uniq mode: ts_after() of the operation that removed the node (atomic) */
	struct rcu_head rh;
};

enum { RZ_NONE, RZ_EXPLICIT, RZ_AUTO, RZ_ACCT };
static const char *const rz_names[] = { "none", "explicit", "auto", "acct" };
static const char *const mm_names[] = { "order", "chunk", "mmap", "default" };

static const char *cfgname;
static int opt_resize, opt_mm, opt_reclaim, opt_chaos, opt_qsbr_resize_offline, opt_unique;
static long opt_stall_ms;

/* ------------------------------------------------------------------ violations with context */

static void viol(const char *key, const char *fmt, ...) __attribute__((format(printf, 2, 3)));
static char g_ctx[160];		/* table configuration of the current generation */
static void viol(const char *key, const char *fmt, ...)
{
	char buf[800];
	va_list ap;
	va_start(ap, fmt);
	vsnprintf(buf, sizeof(buf), fmt, ap);
	va_end(ap);
	vp_violation(key, "cfg=%s flavor=%s table={%s}: %s", cfgname, VP_FLAVOR_NAME, g_ctx, buf);
}

/* ------------------------------------------------------------------ chaos (vp_user_hook) */

static uint32_t ch_prob[URCU_VP_NR_POINTS];
static uint8_t ch_mode[URCU_VP_NR_POINTS];

static void chaos_hook(int point, const void *ctx)
{
	(void) ctx;
	uint32_t p = VP_LOAD(ch_prob[point]);
	if (!p)
		return;
	struct vp_thr *t = vp_self();
	if ((uint32_t) (vp_rand(&t->rng) >> 44) < p)
		vp_delay(&t->rng, VP_LOAD(ch_mode[point]));
}

static void chaos_point(int id, double prob, int mode)
{
	VP_STORE(ch_mode[id], (uint8_t) mode);
	VP_STORE(ch_prob[id], (uint32_t) (prob * (1 << 20)));
}

/* level 0 none, 1 spin, 2 heavy tailed */
static void chaos_set(int level)
{
	int mode = level == 2 ? VP_D_HEAVY : VP_D_SPIN;
	double f = level == 0 ? 0.0 : level == 2 ? 0.6 : 1.0;
	chaos_point(URCU_VP_HT_ADD_BEFORE_CMPXCHG, 0.15 * f, mode);
	chaos_point(URCU_VP_HT_DEL_FLAGGED, 0.30 * f, mode);
	chaos_point(URCU_VP_HT_DEL_BEFORE_OWNER, 0.30 * f, mode);
	chaos_point(URCU_VP_HT_REPLACE_BEFORE_CMPXCHG, 0.30 * f, mode);
	chaos_point(URCU_VP_HT_GC_BEFORE_UNLINK, 0.20 * f, mode);
	/* resize path: only the resizer / library worker hits these */
	chaos_point(URCU_VP_HT_GROW_BEFORE_PUBLISH, level ? 0.5 : 0.1, level ? mode : VP_D_SPIN);
	chaos_point(URCU_VP_HT_SHRINK_BEFORE_GP, level ? 0.5 : 0.1, level ? mode : VP_D_SPIN);
	chaos_point(URCU_VP_HT_SHRINK_BEFORE_REMOVE, level ? 0.5 : 0.1, level ? mode : VP_D_SPIN);
	chaos_point(URCU_VP_HT_SHRINK_BEFORE_FREE, level ? 0.3 : 0.0, mode);
}

static int chaos_pick(struct vp_rng *r)
{
	uint32_t x = vp_rand_n(r, 100);
	if (!opt_chaos || x < 30)
		return 0;
	if (x < 68 || opt_chaos == 1)
		return 1;
	return 2;
}

/* ------------------------------------------------------------------ nodes, reclamation */

static struct vp_quar quar;
static uint64_t n_reclaimed, n_freed_unpublished, n_gp_waits, n_call_rcu;

static void quar_release(void *p)
{
	struct hnode *h = p;
	unsigned char *b = p;
	int bad = -1;
	struct hnode ref;

	memset(&ref, POISON_BYTE, sizeof(ref));
	ref.n.next = VP_POISON_PTR;
	ref.magic = ND_POISON;
	if (memcmp(&ref, h, sizeof(ref))) {
		for (size_t i = 0; i < sizeof(ref); i++)
			if (b[i] != ((unsigned char *) &ref)[i]) {
				bad = (int) i;
				break;
			}
		viol("lfht:late-write-to-reclaimed-node",
		     "node memory %p was written after it had been reclaimed (a grace period after its removal): byte %d = 0x%02x (offset of n.next is %zu)",
		     p, bad, b[bad], offsetof(struct hnode, n.next));
	}
	free(p);
}

static struct hnode *node_new(uint32_t magic, uint64_t key, unsigned long hash, int kidx, uint32_t lid, uint64_t epoch)
{
	struct hnode *h = malloc(sizeof(*h));
	if (!h)
		abort();
	memset(h, 0, sizeof(*h));
	cds_lfht_node_init(&h->n);
	h->key = key;
	h->hash = hash;
	h->magic = magic;
	h->lid = lid;
	h->epoch = epoch;
	h->kidx = kidx;
	return h;
}

/* the caller guarantees that no reader can hold a reference any more */
static void node_reclaim(struct hnode *h)
{
#if VP_ASAN || VP_TSAN
	free(h);
#else
	memset(h, POISON_BYTE, sizeof(*h));
	h->n.next = VP_POISON_PTR;
	h->magic = ND_POISON;
	vp_quar_put(&quar, h);
#endif
}

static void reclaim_cb(struct rcu_head *rh)
{
	struct hnode *h = caa_container_of(rh, struct hnode, rh);
	node_reclaim(h);
}

/* list of removed nodes waiting for a grace period (one owner thread each) */
struct pend {
	struct hnode **v;
	int n, cap;
	uint64_t reclaimed, gps, crcu;
};

static void pend_push(struct pend *p, struct hnode *h)
{
	if (p->n == p->cap) {
		p->cap = p->cap ? p->cap * 2 : 256;
		p->v = realloc(p->v, sizeof(*p->v) * (size_t) p->cap);
		if (!p->v)
			abort();
	}
	p->v[p->n++] = h;
}

/* never from a read-side critical section */
static void pend_flush(struct pend *p)
{
	if (!p->n)
		return;
	if (opt_reclaim == 1) {
		for (int i = 0; i < p->n; i++)
			call_rcu(&p->v[i]->rh, reclaim_cb);
		p->crcu += (uint64_t) p->n;
	} else {
		synchronize_rcu();
		p->gps++;
		for (int i = 0; i < p->n; i++)
			node_reclaim(p->v[i]);
	}
	p->reclaimed += (uint64_t) p->n;
	p->n = 0;
}

static void pend_account(struct pend *p)
{
	__atomic_fetch_add(&n_reclaimed, p->reclaimed, __ATOMIC_RELAXED);
	__atomic_fetch_add(&n_gp_waits, p->gps, __ATOMIC_RELAXED);
	__atomic_fetch_add(&n_call_rcu, p->crcu, __ATOMIC_RELAXED);
	free(p->v);
	memset(p, 0, sizeof(*p));
}

static uint64_t match_bad_reports;

static int match_fn(struct cds_lfht_node *node, const void *key)
{
	struct hnode *h = caa_container_of(node, struct hnode, n);
	uint32_t m = h->magic;

	if (caa_unlikely(m != ND_HOT && m != ND_RES && m != ND_BAL)) {
		if (__atomic_fetch_add(&match_bad_reports, 1, __ATOMIC_RELAXED) < 4)
			viol("lfht:match-on-reclaimed-node",
			     "match() was invoked on node %p with magic 0x%x (%s): a node that was removed and reclaimed after a grace period is still reachable",
			     (void *) h, m, m == ND_POISON ? "poisoned" : "garbage");
		return 0;
	}
	return h->key == *(const uint64_t *) key;
}

/* ------------------------------------------------------------------ table generations */

struct tcfg {
	int mm, flags;
	unsigned long init, minb, max;
};

struct hfam {
	unsigned long h0;
	int far_shift_lo;
};

static struct cds_lfht *g_ht;		/* atomic: the resizer reads it */
static struct tcfg g_tc;
static struct hfam g_fam;
static uint64_t g_generation, g_tables_by_mm[4], g_keyctr;

static inline struct cds_lfht *cur_ht(void)
{
	return __atomic_load_n(&g_ht, __ATOMIC_ACQUIRE);
}

static inline unsigned long ht_size(struct cds_lfht *ht)
{
	return __atomic_load_n(&ht->size, __ATOMIC_RELAXED);
}

static const struct cds_lfht_mm_type *mm_ptr(int mm)
{
	switch (mm) {
	case 0: return &cds_lfht_mm_order;
	case 1: return &cds_lfht_mm_chunk;
	case 2: return &cds_lfht_mm_mmap;
	default: return NULL;
	}
}

static void gen_tcfg(struct vp_rng *r, struct tcfg *c)
{
	memset(c, 0, sizeof(*c));
	c->mm = opt_mm >= 0 ? opt_mm : (int) ((g_generation + vp_opt.seed) & 3);
	switch (opt_resize) {
	case RZ_NONE:
		c->flags = vp_rand_n(r, 3) ? 0 : CDS_LFHT_ACCOUNTING;
		c->init = 1UL << vp_rand_n(r, 5);
		c->max = 64;
		break;
	case RZ_EXPLICIT:
		c->flags = vp_rand_n(r, 3) ? 0 : CDS_LFHT_ACCOUNTING;
		c->init = 1UL << vp_rand_n(r, 7);
		c->max = 64;
		break;
	case RZ_AUTO:
		c->flags = CDS_LFHT_AUTO_RESIZE;
		c->init = 1UL << vp_rand_n(r, 3);
		c->max = 64UL << (2 * vp_rand_n(r, 3));
		break;
	default:
		c->flags = CDS_LFHT_AUTO_RESIZE | CDS_LFHT_ACCOUNTING;
		c->init = 1UL << vp_rand_n(r, 4);
		c->max = 1024;
		break;
	}
	c->minb = 1UL << vp_rand_n(r, 4);
}

static void fam_gen(struct vp_rng *r, struct hfam *f)
{
	uint32_t x = vp_rand_n(r, 100);
	if (x < 18)
		f->h0 = 0;
	else if (x < 36)
		f->h0 = ~0UL;
	else if (x < 76)
		f->h0 = 1 + vp_rand_n(r, 63);	/* equal to a bucket index of small tables */
	else
		f->h0 = vp_rand(r);
	f->far_shift_lo = vp_rand_n(r, 3) ? 12 : 3;
}

/* hash colliding with the family: equal / differs only in high bits / 0 / ~0 / bucket index */
static unsigned long fam_hash(struct vp_rng *r, const struct hfam *f)
{
	uint32_t x = vp_rand_n(r, 100);
	if (x < 42)
		return f->h0;
	if (x < 80) {
		int sh = f->far_shift_lo + (int) vp_rand_n(r, (uint32_t) (63 - f->far_shift_lo));
		unsigned long hi = vp_rand(r) | 1;
		return f->h0 ^ (hi << sh);
	}
	if (x < 86)
		return 0;
	if (x < 92)
		return ~0UL;
	if (x < 96)
		return vp_rand_n(r, 64);
	return f->h0 ^ (1UL << vp_rand_n(r, 64));
}

static uint64_t new_keyval(void)
{
	return (++g_keyctr << 20) ^ 0x5bd1e995u;
}

static struct cds_lfht *table_new(struct vp_rng *r)
{
	struct cds_lfht *ht;
	struct tcfg *c = &g_tc;

	g_generation++;
	gen_tcfg(r, c);
	fam_gen(r, &g_fam);
	if (c->mm == 3)
		ht = cds_lfht_new_flavor(c->init, c->minb, c->max, c->flags, &rcu_flavor, NULL);
	else
		ht = _cds_lfht_new(c->init, c->minb, c->max, c->flags, mm_ptr(c->mm), &rcu_flavor, NULL);
	snprintf(g_ctx, sizeof(g_ctx), "gen=%llu mm=%s flags=%s%s init=%lu min=%lu max=%lu resize=%s h0=0x%lx",
		 (unsigned long long) g_generation, mm_names[c->mm], (c->flags & CDS_LFHT_AUTO_RESIZE) ? "AUTO" : "-",
		 (c->flags & CDS_LFHT_ACCOUNTING) ? "|ACCT" : "", c->init, c->minb, c->max, rz_names[opt_resize], g_fam.h0);
	if (!ht) {
		viol("lfht:new-returned-null", "cds_lfht_new refused a valid configuration");
		exit(vp_finish());
	}
	g_tables_by_mm[c->mm]++;
	__atomic_store_n(&g_ht, ht, __ATOMIC_RELEASE);
	return ht;
}

/* table must be empty; nobody else may touch it (resizer paused) */
static void table_destroy(void)
{
	struct cds_lfht *ht = cur_ht();
	int ret;

	vp_rcu_offline();
	ret = cds_lfht_destroy(ht, NULL);
	vp_rcu_online();
	if (ret)
		viol("lfht:destroy-refused-empty-table",
		     "cds_lfht_destroy returned %d although every node had been removed (each removal returned 0): a removed node is still linked, or a lost node is still in the table",
		     ret);
	__atomic_store_n(&g_ht, NULL, __ATOMIC_RELEASE);
}

/* ------------------------------------------------------------------ resident nodes (only the controller changes them, at quiescence) */

static struct hnode *g_res[MAXRES];
static int g_nres;
static uint64_t g_res_added, g_res_removed;

static void res_add(struct vp_rng *r, unsigned long hash)
{
	struct cds_lfht *ht = cur_ht();
	struct hnode *h;

	if (g_nres >= MAXRES)
		return;
	h = node_new(ND_RES, new_keyval(), hash, -1, (uint32_t) g_nres, g_generation);
	rcu_read_lock();
	if (vp_rand_n(r, 2)) {
		cds_lfht_add(ht, hash, &h->n);
	} else {
		struct cds_lfht_node *ret = cds_lfht_add_unique(ht, hash, match_fn, &h->key, &h->n);
		if (ret != &h->n)
			viol("lfht:add_unique:spurious-failure",
			     "add_unique of a key that was never inserted (resident, hash 0x%lx) returned another node %p", hash, (void *) ret);
	}
	rcu_read_unlock();
	g_res[g_nres++] = h;
	g_res_added++;
}

static void res_remove(int idx, struct pend *p)
{
	struct cds_lfht *ht = cur_ht();
	struct hnode *h = g_res[idx];
	struct cds_lfht_iter it;
	int ret;

	rcu_read_lock();
	cds_lfht_lookup(ht, h->hash, match_fn, &h->key, &it);
	if (cds_lfht_iter_get_node(&it) != &h->n) {
		viol("lfht:resident-lookup-missed",
		     "at quiescence, lookup of resident key 0x%llx (hash 0x%lx) returned %p instead of its node %p (size %lu)",
		     (unsigned long long) h->key, h->hash, (void *) cds_lfht_iter_get_node(&it), (void *) &h->n, ht_size(ht));
		ret = cds_lfht_del(ht, &h->n);
	} else
		ret = cds_lfht_del(ht, cds_lfht_iter_get_node(&it));
	rcu_read_unlock();
	if (ret)
		viol("lfht:quiescent-del-failed", "cds_lfht_del of resident node (hash 0x%lx) that nobody else removes returned %d", h->hash, ret);
	pend_push(p, h);
	g_res[idx] = g_res[--g_nres];
	if (idx < g_nres)
		g_res[idx]->lid = (uint32_t) idx;
	g_res_removed++;
}

/* ------------------------------------------------------------------ explicit resizer thread */

static struct {
	pthread_t tid;
	int started, slot;
	int stop, pause, paused;
	int dir;			/* 0 idle, 1 growing, 2 shrinking (relaxed) */
	int in_call;			/* inside cds_lfht_resize() (watchdog) */
	unsigned long target;
	uint64_t count, grows, shrinks, nonpow2, offline_calls;
} rz;

static const unsigned long rz_seq[] = { 1, 2, 3, 4, 5, 8, 7, 16, 12, 32, 24, 64, 48, 33, 32, 17, 16, 9, 8, 6, 4, 3, 2 };
#define RZ_SEQ_N (sizeof(rz_seq) / sizeof(rz_seq[0]))

static void *resizer_main(void *arg)
{
	struct vp_rng r;
	unsigned i;
	struct vp_thr *vt;

	(void) arg;
	vp_pin(rz.slot);
	vt = vp_self();
	vp_rng_init(&r, vp_opt.seed, 0x7265737a, 0);
	i = vp_rand_n(&r, RZ_SEQ_N);
	rcu_register_thread();
	vp_rcu_offline();
	for (;;) {
		if (__atomic_load_n(&rz.stop, __ATOMIC_SEQ_CST))
			break;
		if (__atomic_load_n(&rz.pause, __ATOMIC_SEQ_CST)) {
			/* two-way handshake: parked until the controller withdraws the request, then say so */
			__atomic_store_n(&rz.paused, 1, __ATOMIC_SEQ_CST);
			while (__atomic_load_n(&rz.pause, __ATOMIC_SEQ_CST) && !__atomic_load_n(&rz.stop, __ATOMIC_SEQ_CST))
				usleep(20);
			__atomic_store_n(&rz.paused, 0, __ATOMIC_SEQ_CST);
			continue;
		}
		struct cds_lfht *ht = cur_ht();
		if (!ht) {
			usleep(20);
			continue;
		}
		unsigned long target = rz_seq[i++ % RZ_SEQ_N];
		if (vp_rand_n(&r, 8) == 0)
			i = vp_rand_n(&r, RZ_SEQ_N);
		unsigned long cur = ht_size(ht);
		int dir = target > cur ? 1 : target < cur ? 2 : 0;
		VP_STORE(rz.dir, dir);
		/*
		 * qsbr: the header rule ("not from a read-side critical section") means an OFFLINE caller;
		 * cds_lfht_resize() goes online by itself for the part that walks the chains.  Both kinds of
		 * caller are used (--qsbr-resize-offline=1 / 0 force one, 2 = per call at random).
		 */
		int offline_call = opt_qsbr_resize_offline == 2 ? (int) vp_rand_n(&r, 2) : opt_qsbr_resize_offline;
		if (!offline_call)
			vp_rcu_online();
		VP_STORE(rz.target, target);
		VP_STORE(rz.in_call, 1);
		cds_lfht_resize(ht, target);
		VP_STORE(rz.in_call, 0);
		if (!offline_call)
			vp_rcu_offline();
		if (offline_call)
			rz.offline_calls++;
		VP_STORE(rz.dir, 0);
		VP_STORE(rz.count, rz.count + 1);
		if (dir == 1)
			rz.grows++;
		else if (dir == 2)
			rz.shrinks++;
		if (target & (target - 1))
			rz.nonpow2++;
		VP_STORE(vt->progress, vt->progress + 1);
		uint32_t x = vp_rand_n(&r, 100);
		if (x < 50)
			vp_spin_cycles(vp_rand_n(&r, 20000));
		else if (x < 60)
			usleep(20 + vp_rand_n(&r, 100));
	}
	vp_rcu_online();
	rcu_unregister_thread();
	return NULL;
}

/* watchdog: nothing moved for the whole stall period and the resizer sits inside cds_lfht_resize() */
static int resizer_confirm_stuck(char *buf, size_t len)
{
	if (rz.started && VP_LOAD(rz.in_call)) {
		snprintf(buf, len, "hang:lfht:cds_lfht_resize(%lu)-does-not-return", VP_LOAD(rz.target));
		return 1;
	}
	return 0;
}

static void resizer_start(int slot)
{
	if (opt_resize != RZ_EXPLICIT)
		return;
	rz.slot = slot;
	rz.started = 1;
	pthread_create(&rz.tid, NULL, resizer_main, NULL);
}

/* returns with the resizer outside cds_lfht_resize() and waiting */
static void resizer_pause(void)
{
	if (!rz.started)
		return;
	__atomic_store_n(&rz.pause, 1, __ATOMIC_SEQ_CST);
	vp_rcu_offline();
	while (!__atomic_load_n(&rz.paused, __ATOMIC_SEQ_CST))
		usleep(10);
	vp_rcu_online();
}

/* returns once the resizer has left its parking loop (so that a later pause request cannot see a stale "paused") */
static void resizer_resume(void)
{
	if (!rz.started)
		return;
	vp_rcu_offline();
	/* first call: the thread starts with the request pending and may not have parked yet */
	while (!__atomic_load_n(&rz.paused, __ATOMIC_SEQ_CST))
		usleep(10);
	__atomic_store_n(&rz.pause, 0, __ATOMIC_SEQ_CST);
	while (__atomic_load_n(&rz.paused, __ATOMIC_SEQ_CST))
		usleep(10);
	vp_rcu_online();
}

static void resizer_stop(void)
{
	if (!rz.started)
		return;
	__atomic_store_n(&rz.stop, 1, __ATOMIC_SEQ_CST);
	pthread_join(rz.tid, NULL);
	rz.started = 0;
}

/* ------------------------------------------------------------------ bounded set of signatures */

#define SIGTAB 8192
static uint64_t sigtab[SIGTAB];
static int sigtab_n;
static pthread_mutex_t sig_lock = PTHREAD_MUTEX_INITIALIZER;

static void sig_add_bounded(const char *s)
{
	uint64_t h = 1469598103934665603ULL;
	int isnew = 0;

	for (const char *c = s; *c; c++)
		h = (h ^ (unsigned char) *c) * 1099511628211ULL;
	if (!h)
		h = 1;
	/* per-thread cache of signatures already handed in: the walkers call this millions of times */
	static __thread uint64_t cache[256];
	if (cache[h & 255] == h)
		return;
	cache[h & 255] = h;
	pthread_mutex_lock(&sig_lock);
	for (size_t i = h % SIGTAB;; i = (i + 1) % SIGTAB) {
		if (sigtab[i] == h)
			break;
		if (!sigtab[i]) {
			if (sigtab_n < 2400) {
				sigtab[i] = h;
				sigtab_n++;
				isnew = 1;
			}
			break;
		}
	}
	pthread_mutex_unlock(&sig_lock);
	if (isnew)
		vp_sig_add("%s", s);
}

static void common_counters(void)
{
	vp_counter_add("table_generations", g_generation);
	for (int i = 0; i < 4; i++) {
		char name[48];
		snprintf(name, sizeof(name), "tables_mm_%s", mm_names[i]);
		vp_counter_add(name, g_tables_by_mm[i]);
	}
	vp_counter_add("residents_added", g_res_added);
	vp_counter_add("residents_removed", g_res_removed);
	vp_counter_add("explicit_resize_calls", rz.count);
	vp_counter_add("explicit_resize_grow", rz.grows);
	vp_counter_add("explicit_resize_shrink", rz.shrinks);
	vp_counter_add("explicit_resize_nonpow2_target", rz.nonpow2);
	if (VP_IS_QSBR)
		vp_counter_add("explicit_resize_from_offline_thread", rz.offline_calls);
	vp_counter_add("nodes_reclaimed_after_gp", n_reclaimed);
	vp_counter_add("nodes_released_never_published", n_freed_unpublished);
	vp_counter_add("grace_periods_waited", n_gp_waits);
	vp_counter_add("call_rcu_reclaims", n_call_rcu);
}

#include "lfht_conc_lin.h"
#include "lfht_conc_ep.h"
#include "lfht_conc_uniq.h"

int main(int argc, char **argv)
{
	const char *s;

	vp_init(argc, argv, "lfht_conc_" VP_FLAVOR_NAME);
	cfgname = vp_arg("cfg", "lfht");
	s = vp_arg("resize", "none");
	opt_resize = !strcmp(s, "explicit") ? RZ_EXPLICIT : !strcmp(s, "auto") ? RZ_AUTO : !strcmp(s, "acct") ? RZ_ACCT : RZ_NONE;
	s = vp_arg("mm", "rotate");
	opt_mm = !strcmp(s, "order") ? 0 : !strcmp(s, "chunk") ? 1 : !strcmp(s, "mmap") ? 2 : !strcmp(s, "default") ? 3 : -1;
	opt_reclaim = !strcmp(vp_arg("reclaim", "sync"), "call_rcu");
	opt_chaos = (int) vp_arg_long("chaos", 2);
	opt_qsbr_resize_offline = (int) vp_arg_long("qsbr-resize-offline", 2);
	opt_unique = !strcmp(vp_arg("discipline", "any"), "unique");
	opt_stall_ms = vp_arg_long("stall-ms", 20000);
	vp_tun_count_commit_order = (unsigned) vp_arg_long("tun-commit-order", opt_resize == RZ_ACCT ? 2 : 10);
	vp_tun_min_part_order = (unsigned) vp_arg_long("tun-part-order", 12);
	vp_quar_init(&quar, 1 << 14, quar_release);
	vp_user_hook = chaos_hook;
	s = vp_arg("mode", "episodes");
	if (!strcmp(s, "uniq"))
		return run_uniq();
	if (!strcmp(s, "rounds"))
		return run_rounds();
	if (!strcmp(s, "finding-addu"))
		return run_finding_addu();
	return run_episodes();
}
