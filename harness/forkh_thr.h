/*
 * forkh_thr.h - application threads around the forking thread (harness/forkh.c).
 *   non-bp flavors: unregistered idle threads (as the documented contract requires)
 *   bp: reader threads (parked inside a section, or cycling through sections) and
 *       concurrent synchronize_rcu() callers.
 */
#ifndef FORKH_THR_H
#define FORKH_THR_H

#define MAX_APP_THR 40

enum { TR_IDLE = 0, TR_HOLDER, TR_CYCLER, TR_SYNCER };

struct appthr {
	pthread_t tid;
	int idx, role, ktid;
	struct vp_rng rng;
	uint64_t sections, syncs;
};

struct appset {
	struct appthr t[MAX_APP_THR];
	int n, nreaders, nholders, nsyncers;
	int started, stop, hold_release, holding;
	int insec[MAX_APP_THR];		/* 1 while thread i is inside a read-side section */
};

static struct appset *g_app;

static void *app_main(void *arg)
{
	struct appthr *t = arg;
	struct appset *a = g_app;
	int ncpu_slots = vp_ncpu > 1 ? vp_ncpu - 1 : 1;
	vp_pin(1 + t->idx % ncpu_slots);
	(void) vp_self();
	__atomic_store_n(&t->ktid, (int) syscall(SYS_gettid), __ATOMIC_RELAXED);
	switch (t->role) {
	case TR_IDLE:
		__atomic_fetch_add(&a->started, 1, __ATOMIC_SEQ_CST);
		while (!VP_LOAD(a->stop))
			usleep(500);
		break;
#if VP_IS_BP
	case TR_HOLDER:
		rcu_read_lock();
		VP_STORE(a->insec[t->idx], 1);
		__atomic_fetch_add(&a->started, 1, __ATOMIC_SEQ_CST);
		__atomic_fetch_add(&a->holding, 1, __ATOMIC_SEQ_CST);
		/* bounded in time (0.4 s): a call_rcu helper that started a grace period
		 * before PAUSE was requested must be able to finish it, otherwise the
		 * scenario itself (not the library) would stall in before_fork */
		{
			uint64_t t0 = vp_now_ns();
			while (!VP_LOAD(a->hold_release) && !VP_LOAD(a->stop) && vp_now_ns() - t0 < 400000000ULL)
				usleep(200);
		}
		VP_STORE(a->insec[t->idx], 0);
		rcu_read_unlock();
		__atomic_fetch_sub(&a->holding, 1, __ATOMIC_SEQ_CST);
		t->sections++;
		/* fall through: keep cycling like the others */
	case TR_CYCLER: {
		int first = (t->role == TR_CYCLER);
		while (!VP_LOAD(a->stop)) {
			rcu_read_lock();
			VP_STORE(a->insec[t->idx], 1);
			if (first) {
				first = 0;
				__atomic_fetch_add(&a->started, 1, __ATOMIC_SEQ_CST);
			}
			uint32_t x = vp_rand_n(&t->rng, 100);
			if (x < 70)
				vp_spin_cycles(1000 + vp_rand_n(&t->rng, 100000));
			else if (x < 90) {
				rcu_read_lock();	/* nested */
				vp_spin_cycles(1000 + vp_rand_n(&t->rng, 50000));
				rcu_read_unlock();
			} else
				usleep(50 + vp_rand_n(&t->rng, 300));
			VP_STORE(a->insec[t->idx], 0);
			rcu_read_unlock();
			t->sections++;
			/* mostly asleep outside sections: 32 readers share 3 CPUs with the helpers */
			if (vp_rand_n(&t->rng, 10) < 7)
				usleep(50 + vp_rand_n(&t->rng, 400));
			else
				vp_spin_cycles(vp_rand_n(&t->rng, 20000));
		}
		break;
	}
	case TR_SYNCER:
		__atomic_fetch_add(&a->started, 1, __ATOMIC_SEQ_CST);
		while (!VP_LOAD(a->stop)) {
			synchronize_rcu();
			t->syncs++;
			usleep(vp_rand_n(&t->rng, 600));
		}
		break;
#endif
	default:
		__atomic_fetch_add(&a->started, 1, __ATOMIC_SEQ_CST);
		break;
	}
	return NULL;
}

/* returns 0 when every thread is up (and, for bp readers, registered) */
static int app_start(struct appset *a, int nidle, int nholders, int ncyclers, int nsyncers, uint64_t seed)
{
	memset(a, 0, sizeof(*a));
	g_app = a;
	int k = 0;
	for (int i = 0; i < nidle && k < MAX_APP_THR; i++)
		a->t[k++].role = TR_IDLE;
	for (int i = 0; i < nholders && k < MAX_APP_THR; i++)
		a->t[k++].role = TR_HOLDER;
	for (int i = 0; i < ncyclers && k < MAX_APP_THR; i++)
		a->t[k++].role = TR_CYCLER;
	for (int i = 0; i < nsyncers && k < MAX_APP_THR; i++)
		a->t[k++].role = TR_SYNCER;
	a->n = k;
	a->nholders = nholders;
	a->nreaders = nholders + ncyclers;
	a->nsyncers = nsyncers;
	for (int i = 0; i < k; i++) {
		a->t[i].idx = i;
		vp_rng_init(&a->t[i].rng, seed, 0xa99, (uint64_t) i);
		if (pthread_create(&a->t[i].tid, NULL, app_main, &a->t[i])) {
			a->n = i;
			return -1;
		}
	}
	for (long spin = 0; __atomic_load_n(&a->started, __ATOMIC_SEQ_CST) < k; spin++) {
		usleep(100);
		if (spin > 200000)
			return -1;
	}
	return 0;
}

/* only in the process that created the threads */
static void app_stop(struct appset *a)
{
	VP_STORE(a->hold_release, 1);
	VP_STORE(a->stop, 1);
	for (int i = 0; i < a->n; i++)
		pthread_join(a->t[i].tid, NULL);
	if (g_app == a)
		g_app = NULL;
}

static int app_is_tid(int tid)
{
	struct appset *a = g_app;
	if (!a)
		return 0;
	for (int i = 0; i < a->n; i++)
		if (__atomic_load_n(&a->t[i].ktid, __ATOMIC_RELAXED) == tid)
			return 1;
	return 0;
}

static int app_count_insec(struct appset *a)
{
	int c = 0;
	for (int i = 0; i < a->n; i++)
		c += VP_LOAD(a->insec[i]) != 0;
	return c;
}

#endif
