/*
 * lin.h - small linearizability checker (Wing-Gong search with Lowe's
 * memoisation over (linearised set, model state)), used in-process right
 * after each short episode.  Histories hold at most 64 operations.
 *
 * Intervals are [call, ret] TSC stamps taken with ts_before()/ts_after(), so
 * they are supersets of the true intervals; `eps` widens them further between
 * threads.  An operation may be linearised next iff no pending operation of
 * ANOTHER thread returned (by more than eps) before it was called and no pending
 * operation of the SAME thread was called before it (program order is exact:
 * `thread` must identify one sequential actor).
 */
#ifndef LIN_H
#define LIN_H
#include <stdint.h>
#include <stdio.h>
#include <stddef.h>

#define LIN_MAX_OPS 64
#define LIN_MAX_STATE 2048

struct lin_op {
	int thread;
	int kind;
	uint64_t a, b;		/* arguments */
	uint64_t r, r2;		/* results */
	uint64_t call, ret;	/* TSC stamps; ret = UINT64_MAX for an operation that never returned */
};

struct lin_model {
	const char *name;
	size_t state_size;	/* <= LIN_MAX_STATE */
	void (*init)(void *state, void *ctx);
	/* apply op to *state; return 1 and update state if the recorded result is the
	 * one the sequential specification gives from this state, else 0 (state unspecified) */
	int (*apply)(void *state, const struct lin_op *op, void *ctx);
	uint64_t (*hash)(const void *state, void *ctx);	/* may be NULL: FNV over state bytes */
	void (*print_op)(FILE *f, const struct lin_op *op, void *ctx);	/* may be NULL */
};

enum { LIN_OK = 0, LIN_VIOLATION = 1, LIN_INCONCLUSIVE = 2 };

struct lin_result {
	int verdict;
	uint64_t nodes;		/* search nodes expanded */
	int max_concurrency;	/* max number of mutually overlapping operations */
	int order[LIN_MAX_OPS];	/* a witness linearisation when verdict == LIN_OK */
};

int lin_check(const struct lin_model *m, void *ctx, const struct lin_op *ops, int n,
	      uint64_t eps, uint64_t budget, struct lin_result *res);
void lin_dump(FILE *f, const struct lin_model *m, void *ctx, const struct lin_op *ops, int n);
/* overlap signature of a history: multiset of (kind,kind) pairs that overlapped, as a short string */
void lin_overlap_sig(const struct lin_op *ops, int n, uint64_t eps, const char *const *kind_names,
		     char *buf, size_t len);
int lin_count_overlaps(const struct lin_op *ops, int n, uint64_t eps);

#endif
