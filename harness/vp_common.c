/* vp_common.c - see vp.h */
#include "vp.h"
#include <sys/mman.h>
#include <sys/syscall.h>
#include <sys/stat.h>
#include <sys/time.h>
#include <dirent.h>
#include <fcntl.h>
#include <linux/futex.h>
#include <ucontext.h>

struct vp_opts vp_opt = { .seed = 1, .placement = -1, .scale = 1.0 };
static int g_argc;
static char **g_argv;
static const char *g_harness = "?";
static uint64_t g_t_start_ns;

uint64_t vp_now_ns(void)
{
	struct timespec ts;
	clock_gettime(CLOCK_MONOTONIC, &ts);
	return (uint64_t) ts.tv_sec * 1000000000ULL + ts.tv_nsec;
}

const char *vp_arg(const char *name, const char *dflt)
{
	size_t n = strlen(name);
	for (int i = 1; i < g_argc; i++) {
		const char *a = g_argv[i];
		if (a[0] == '-' && a[1] == '-' && !strncmp(a + 2, name, n)) {
			if (a[2 + n] == '=')
				return a + 3 + n;
			if (a[2 + n] == 0)
				return "1";
		}
	}
	return dflt;
}
long vp_arg_long(const char *name, long dflt)
{
	const char *v = vp_arg(name, NULL);
	return v ? strtol(v, NULL, 0) : dflt;
}
double vp_arg_double(const char *name, double dflt)
{
	const char *v = vp_arg(name, NULL);
	return v ? strtod(v, NULL) : dflt;
}

/* ================================================================ placement */

int vp_ncpu;
int vp_cpus[256];
static int g_lib_slot_base = -1;
static int g_lib_slot_next;

static void placement_init(void)
{
	cpu_set_t set;
	CPU_ZERO(&set);
	if (sched_getaffinity(0, sizeof(set), &set)) {
		perror("sched_getaffinity");
		exit(2);
	}
	vp_ncpu = 0;
	for (int c = 0; c < CPU_SETSIZE && vp_ncpu < 256; c++)
		if (CPU_ISSET(c, &set))
			vp_cpus[vp_ncpu++] = c;
	if (vp_ncpu < 1)
		exit(2);
	if (vp_opt.placement < 0) {
		/* from seed: mostly spread, sometimes pairs / packed */
		uint64_t h = vp_opt.seed * 0x9e3779b97f4a7c15ULL;
		unsigned r = (h >> 40) % 10;
		vp_opt.placement = r < 6 ? 0 : (r < 8 ? 1 : 2);
	}
}

int vp_slot_cpu(int slot)
{
	int idx;
	if (slot < 0)
		slot = 0;
	switch (vp_opt.placement) {
	default:
	case 0: idx = slot % vp_ncpu; break;
	case 1: idx = (slot / 2) % vp_ncpu; break;
	case 2: { int k = vp_ncpu >= 4 ? vp_ncpu / 2 : vp_ncpu; if (k > 3) k = 3; idx = slot % k; break; }
	}
	return vp_cpus[idx];
}

void vp_pin_cpu(int cpu)
{
	cpu_set_t set;
	CPU_ZERO(&set);
	CPU_SET(cpu, &set);
	if (sched_setaffinity(0, sizeof(set), &set))
		perror("sched_setaffinity");
}

void vp_pin(int slot)
{
	vp_pin_cpu(vp_slot_cpu(slot));
}

void vp_lib_thread_slot_base(int slot)
{
	g_lib_slot_base = slot;
	g_lib_slot_next = 0;
}

/* --wrap=pthread_create: threads created by the library get a CPU of their own
 * (F1: otherwise they inherit the creator's single CPU). Harness threads pin
 * themselves at start and therefore override this. */
struct tramp { void *(*fn)(void *); void *arg; int cpu; };
static void *tramp_fn(void *p)
{
	struct tramp t = *(struct tramp *) p;
	free(p);
	if (t.cpu >= 0)
		vp_pin_cpu(t.cpu);
	return t.fn(t.arg);
}
__thread int vp_create_fail_armed;
uint32_t vp_create_fail_prob;
uint64_t vp_create_fail_injected;
int __real_pthread_create(pthread_t *t, const pthread_attr_t *a, void *(*fn)(void *), void *arg);
int __wrap_pthread_create(pthread_t *t, const pthread_attr_t *a, void *(*fn)(void *), void *arg)
{
	struct tramp *tr;
	int ret;
	if (vp_create_fail_armed && vp_create_fail_prob &&
	    (uint32_t) (vp_rand(&vp_self()->rng) >> 44) < vp_create_fail_prob) {
		__atomic_fetch_add(&vp_create_fail_injected, 1, __ATOMIC_RELAXED);
		return EAGAIN;
	}
	tr = malloc(sizeof(*tr));
	if (!tr)
		return __real_pthread_create(t, a, fn, arg);
	tr->fn = fn;
	tr->arg = arg;
	if (vp_ncpu > 0) {
		int n = __atomic_fetch_add(&g_lib_slot_next, 1, __ATOMIC_RELAXED);
		if (g_lib_slot_base >= 0)
			tr->cpu = vp_slot_cpu(g_lib_slot_base + (n % 4));
		else
			tr->cpu = vp_cpus[(vp_ncpu - 1 - (n % vp_ncpu) + vp_ncpu) % vp_ncpu];
	} else
		tr->cpu = -1;
	ret = __real_pthread_create(t, a, tramp_fn, tr);
	if (ret)
		free(tr);
	return ret;
}

/* ================================================================ clock */

uint64_t vp_eps;
double vp_tsc_ghz;

struct calib { volatile uint64_t req, rsp_t; volatile int stop; int cpu; };
static void *calib_peer(void *p)
{
	struct calib *c = p;
	uint64_t last = 0;
	vp_pin_cpu(c->cpu);
	while (!__atomic_load_n(&c->stop, __ATOMIC_ACQUIRE)) {
		uint64_t r = __atomic_load_n(&c->req, __ATOMIC_ACQUIRE);
		if (r != last) {
			last = r;
			__atomic_store_n(&c->rsp_t, ts_after(), __ATOMIC_SEQ_CST);
		}
	}
	return NULL;
}

static void vp_calibrate_clock_once(void);
void vp_calibrate_clock(void)
{
	/* a busy machine (other jobs preempting the ping-pong peers) can spoil one measurement:
	 * retry before declaring the interval oracles inconclusive */
	for (int attempt = 0; attempt < 4; attempt++) {
		vp_calibrate_clock_once();
		if (vp_eps)
			return;
		usleep(20000 * (attempt + 1));
	}
}

static void vp_calibrate_clock_once(void)
{
	/* frequency */
	uint64_t n0 = vp_now_ns(), t0 = vp_rdtsc();
	while (vp_now_ns() - n0 < 20000000ULL)
		;
	uint64_t n1 = vp_now_ns(), t1 = vp_rdtsc();
	vp_tsc_ghz = (double) (t1 - t0) / (double) (n1 - n0);

	int64_t max_off = 0;
	uint64_t max_rtt = 0;
	int ok = 1;
	vp_pin_cpu(vp_cpus[0]);
	for (int i = 1; i < vp_ncpu; i++) {
		struct calib c = { .cpu = vp_cpus[i] };
		pthread_t th;
		if (__real_pthread_create(&th, NULL, calib_peer, &c)) { ok = 0; break; }
		uint64_t best_rtt = ~0ULL;
		int64_t best_off = 0;
		for (int k = 1; k <= 2000; k++) {
			uint64_t a = ts_before();
			__atomic_store_n(&c.rsp_t, 0, __ATOMIC_SEQ_CST);
			__atomic_store_n(&c.req, k, __ATOMIC_SEQ_CST);
			uint64_t spin = 0;
			while (__atomic_load_n(&c.rsp_t, __ATOMIC_ACQUIRE) == 0 && ++spin < 100000000ULL)
				;
			uint64_t b = ts_after();
			uint64_t r = __atomic_load_n(&c.rsp_t, __ATOMIC_ACQUIRE);
			if (!r) { ok = 0; break; }
			if (b - a < best_rtt) {
				best_rtt = b - a;
				best_off = (int64_t) r - (int64_t) (a + (b - a) / 2);
			}
		}
		__atomic_store_n(&c.stop, 1, __ATOMIC_RELEASE);
		pthread_join(th, NULL);
		if (!ok)
			break;
		if (best_off < 0) best_off = -best_off;
		if (best_off > max_off) max_off = best_off;
		if (best_rtt > max_rtt) max_rtt = best_rtt;
	}
	if (!ok || max_off > 20000 || vp_ncpu < 1) {
		vp_eps = 0;
		return;
	}
	vp_eps = 4 * ((uint64_t) max_off + max_rtt / 2) + 200;
	if (vp_ncpu == 1)
		vp_eps = 400;
}

/* ================================================================ per-thread state / hooks */

#define VP_MAX_THR 2048
static struct vp_thr g_thr_pool[VP_MAX_THR];
static int g_thr_used;			/* high-water mark */
static int g_thr_free[VP_MAX_THR];
static int g_thr_nfree;
static pthread_mutex_t g_thr_lock = PTHREAD_MUTEX_INITIALIZER;
static pthread_key_t g_thr_key;
static pthread_once_t g_thr_once = PTHREAD_ONCE_INIT;
static __thread struct vp_thr *tls_me;
static struct vp_thr g_thr_overflow;	/* shared fallback if pool exhausted */

static void thr_dtor(void *p)
{
	struct vp_thr *t = p;
	tls_me = NULL;
	if (t == &g_thr_overflow)
		return;
	pthread_mutex_lock(&g_thr_lock);
	g_thr_free[g_thr_nfree++] = t->slot_idx;
	pthread_mutex_unlock(&g_thr_lock);
}
static void thr_key_init(void)
{
	pthread_key_create(&g_thr_key, thr_dtor);
}

struct vp_thr *vp_self(void)
{
	struct vp_thr *t = tls_me;
	if (__builtin_expect(t != NULL, 1))
		return t;
	pthread_once(&g_thr_once, thr_key_init);
	sigset_t all, old;
	sigfillset(&all);
	pthread_sigmask(SIG_BLOCK, &all, &old);
	pthread_mutex_lock(&g_thr_lock);
	if (g_thr_nfree > 0)
		t = &g_thr_pool[g_thr_free[--g_thr_nfree]];
	else if (g_thr_used < VP_MAX_THR) {
		t = &g_thr_pool[g_thr_used];
		t->slot_idx = g_thr_used;
		__atomic_store_n(&g_thr_used, g_thr_used + 1, __ATOMIC_RELEASE);
	} else
		t = &g_thr_overflow;
	pthread_mutex_unlock(&g_thr_lock);
	if (t->rng.s == 0)
		vp_rng_init(&t->rng, vp_opt.seed, 0xabcdef, (uint64_t) t->slot_idx);
	tls_me = t;
	pthread_setspecific(g_thr_key, t);
	pthread_sigmask(SIG_SETMASK, &old, NULL);
	return t;
}

struct vp_point_cfg vp_pcfg[URCU_VP_NR_POINTS];
void (*vp_user_hook)(int point, const void *ctx);
struct vp_freeze vp_frz;

void vp_points_clear(void)
{
	memset(vp_pcfg, 0, sizeof(vp_pcfg));
}

uint64_t vp_point_hits(int id)
{
	uint64_t s = 0;
	int n = __atomic_load_n(&g_thr_used, __ATOMIC_ACQUIRE);
	for (int i = 0; i < n; i++)
		s += __atomic_load_n(&g_thr_pool[i].hits[id], __ATOMIC_RELAXED);
	s += g_thr_overflow.hits[id];
	return s;
}

void vp_delay(struct vp_rng *r, int mode)
{
	uint32_t x;
	switch (mode) {
	case VP_D_SPIN:
		vp_spin_cycles(50 + vp_rand_n(r, 5000));
		break;
	case VP_D_YIELD:
		sched_yield();
		break;
	case VP_D_SLEEP:
		usleep(50 + vp_rand_n(r, 450));
		break;
	case VP_D_HEAVY:
		x = vp_rand_n(r, 1000);
		if (x < 600)
			vp_spin_cycles(50 + vp_rand_n(r, 600));
		else if (x < 880)
			vp_spin_cycles(600 + vp_rand_n(r, 30000));
		else if (x < 960)
			sched_yield();
		else if (x < 995)
			usleep(1 + vp_rand_n(r, 200));
		else
			usleep(500 + vp_rand_n(r, 3000));
		break;
	default:
		break;
	}
}

void vp_delay_heavy(struct vp_rng *r)
{
	vp_delay(r, VP_D_HEAVY);
}

void vp_freeze_arm(int point, int max_frozen)
{
	vp_frz.release = 0;
	vp_frz.frozen = 0;
	vp_frz.only_set = 0;
	vp_frz.max_frozen = max_frozen;
	__atomic_store_n(&vp_frz.point, point, __ATOMIC_SEQ_CST);
	__atomic_store_n(&vp_frz.armed, 1, __ATOMIC_SEQ_CST);
}
void vp_freeze_arm_thread(int point, pthread_t t)
{
	vp_frz.release = 0;
	vp_frz.frozen = 0;
	vp_frz.only = t;
	vp_frz.only_set = 1;
	vp_frz.max_frozen = 1;
	__atomic_store_n(&vp_frz.point, point, __ATOMIC_SEQ_CST);
	__atomic_store_n(&vp_frz.armed, 1, __ATOMIC_SEQ_CST);
}
int vp_freeze_wait_frozen(int n, uint64_t timeout_ms)
{
	uint64_t t0 = vp_now_ns();
	while (__atomic_load_n(&vp_frz.frozen, __ATOMIC_ACQUIRE) < n) {
		if (vp_now_ns() - t0 > timeout_ms * 1000000ULL)
			return 0;
		__asm__ __volatile__("pause");
	}
	return 1;
}
void vp_freeze_release(void)
{
	__atomic_store_n(&vp_frz.armed, 0, __ATOMIC_SEQ_CST);
	__atomic_store_n(&vp_frz.release, 1, __ATOMIC_SEQ_CST);
	while (__atomic_load_n(&vp_frz.frozen, __ATOMIC_ACQUIRE) > 0)
		sched_yield();
	__atomic_store_n(&vp_frz.point, 0, __ATOMIC_SEQ_CST);
}

static void freeze_here(void)
{
	if (vp_frz.only_set && !pthread_equal(vp_frz.only, pthread_self()))
		return;
	int n = __atomic_add_fetch(&vp_frz.frozen, 1, __ATOMIC_SEQ_CST);
	if (n > vp_frz.max_frozen) {
		__atomic_sub_fetch(&vp_frz.frozen, 1, __ATOMIC_SEQ_CST);
		return;
	}
	uint64_t spins = 0;
	while (!__atomic_load_n(&vp_frz.release, __ATOMIC_ACQUIRE)) {
		if (++spins > 2000)
			usleep(50);
		else
			__asm__ __volatile__("pause");
	}
	__atomic_sub_fetch(&vp_frz.frozen, 1, __ATOMIC_SEQ_CST);
}

void urcu_verif_hook_fn(int point, const void *ctx)
{
	struct vp_thr *t = vp_self();
	int saved_errno = errno;

	__atomic_store_n(&t->hits[point], t->hits[point] + 1, __ATOMIC_RELAXED);
	if (t->in_hook)
		return;
	t->in_hook = 1;
	if (vp_user_hook)
		vp_user_hook(point, ctx);
	if (__builtin_expect(__atomic_load_n(&vp_frz.armed, __ATOMIC_RELAXED) && __atomic_load_n(&vp_frz.point, __ATOMIC_RELAXED) == point, 0))
		freeze_here();
	uint32_t p = vp_pcfg[point].prob;
	if (p && (uint32_t) (vp_rand(&t->rng) >> 44) < p)
		vp_delay(&t->rng, vp_pcfg[point].mode);
	t->in_hook = 0;
	errno = saved_errno;
}

/* ================================================================ syscall fault injection */

struct vp_fault_cfg vp_fault;
static struct vp_fault_stats g_fs[64] __attribute__((aligned(64)));
#define FS(field) ((void) __atomic_fetch_add(&g_fs[vp_self()->slot_idx & 63].field, 1, __ATOMIC_RELAXED))

void vp_fault_stats_get(struct vp_fault_stats *s)
{
	memset(s, 0, sizeof(*s));
	for (int i = 0; i < 64; i++) {
		uint64_t *d = (uint64_t *) s, *a = (uint64_t *) &g_fs[i];
		for (size_t k = 0; k < sizeof(*s) / 8; k++)
			d[k] += __atomic_load_n(&a[k], __ATOMIC_RELAXED);
	}
}

long __real_syscall(long nr, ...);
long __wrap_syscall(long nr, ...)
{
	va_list ap;
	long a1, a2, a3, a4, a5, a6;
	va_start(ap, nr);
	a1 = va_arg(ap, long); a2 = va_arg(ap, long); a3 = va_arg(ap, long);
	a4 = va_arg(ap, long); a5 = va_arg(ap, long); a6 = va_arg(ap, long);
	va_end(ap);

	if (nr == SYS_futex) {
		int op = (int) a2 & 127;
		struct vp_thr *t = vp_self();
		if (vp_fault.futex_enosys) {
			FS(inj_enosys);
			errno = ENOSYS;
			return -1;
		}
		if (op == FUTEX_WAIT) {
			FS(futex_wait);
			uint32_t r = (uint32_t) (vp_rand(&t->rng) >> 44);
			if (r < vp_fault.wait_spurious) {
				FS(inj_spurious);
				return 0;
			}
			if (r < vp_fault.wait_spurious + vp_fault.wait_eintr) {
				FS(inj_eintr);
				errno = EINTR;
				return -1;
			}
			if (r < vp_fault.wait_spurious + vp_fault.wait_eintr + vp_fault.wait_enosys) {
				FS(inj_wait_enosys);
				errno = ENOSYS;
				return -1;
			}
			long ret = __real_syscall(nr, a1, a2, a3, a4, a5, a6);
			if (ret == 0)
				FS(futex_wait_blocked);
			return ret;
		}
		if (op == FUTEX_WAKE) {
			FS(futex_wake);
			if (vp_fault.wake_delay &&
			    (uint32_t) (vp_rand(&t->rng) >> 44) < vp_fault.wake_delay) {
				FS(inj_wake_delay);
				int e = errno;
				vp_delay(&t->rng, VP_D_HEAVY);
				errno = e;
			}
			long ret = __real_syscall(nr, a1, a2, a3, a4, a5, a6);
			if (ret > 0)
				FS(wake_woke);
			return ret;
		}
	}
#ifdef SYS_membarrier
	if (nr == SYS_membarrier) {
		if (vp_fault.no_membarrier) {
			(void) __atomic_fetch_add(&g_fs[0].membarrier_denied, 1, __ATOMIC_RELAXED);
			errno = ENOSYS;
			return -1;
		}
		if (tls_me)
			FS(membarrier);
	}
#endif
	return __real_syscall(nr, a1, a2, a3, a4, a5, a6);
}

/* VP_NO_MEMBARRIER must be honoured before library constructors run */
static void __attribute__((constructor(101))) vp_early_init(void)
{
	const char *e = getenv("VP_NO_MEMBARRIER");
	if (e && *e == '1')
		vp_fault.no_membarrier = 1;
}

/* ================================================================ chaos signals */

#define VP_CHAOS_SIG SIGUSR2
#define VP_MAX_CHAOS 512
static pthread_t g_chaos_thr[VP_MAX_CHAOS];
static int g_chaos_n;
static pthread_mutex_t g_chaos_lock = PTHREAD_MUTEX_INITIALIZER;
static pthread_t g_chaos_tid;
static int g_chaos_stop, g_chaos_running;
static uint32_t g_chaos_period;
static int g_chaos_slot;
static void (*g_chaos_cb)(void);
uint64_t vp_chaos_signals_sent, vp_chaos_signals_handled;

static void chaos_handler(int sig)
{
	int e = errno;
	(void) sig;
	__atomic_fetch_add(&vp_chaos_signals_handled, 1, __ATOMIC_RELAXED);
	struct vp_thr *t = tls_me;
	if (g_chaos_cb)
		g_chaos_cb();
	if (t) {
		uint32_t x = vp_rand_n(&t->rng, 100);
		if (x < 70)
			vp_spin_cycles(100 + vp_rand_n(&t->rng, 3000));
		else if (x < 95)
			vp_spin_cycles(3000 + vp_rand_n(&t->rng, 60000));
		else
			sched_yield();
	}
	errno = e;
}

void vp_chaos_register_self(void)
{
	(void) vp_self();
	pthread_mutex_lock(&g_chaos_lock);
	if (g_chaos_n < VP_MAX_CHAOS)
		g_chaos_thr[g_chaos_n++] = pthread_self();
	pthread_mutex_unlock(&g_chaos_lock);
}
void vp_chaos_unregister_self(void)
{
	pthread_mutex_lock(&g_chaos_lock);
	for (int i = 0; i < g_chaos_n; i++)
		if (pthread_equal(g_chaos_thr[i], pthread_self())) {
			g_chaos_thr[i] = g_chaos_thr[--g_chaos_n];
			break;
		}
	pthread_mutex_unlock(&g_chaos_lock);
}
static void *chaos_main(void *arg)
{
	struct vp_rng r;
	(void) arg;
	sigset_t all;
	sigfillset(&all);
	pthread_sigmask(SIG_BLOCK, &all, NULL);
	vp_pin(g_chaos_slot);
	vp_rng_init(&r, vp_opt.seed, 0xc4a05, 1);
	while (!VP_LOAD(g_chaos_stop)) {
		pthread_mutex_lock(&g_chaos_lock);
		if (g_chaos_n > 0) {
			pthread_t t = g_chaos_thr[vp_rand_n(&r, g_chaos_n)];
			if (pthread_kill(t, VP_CHAOS_SIG) == 0)
				VP_STORE(vp_chaos_signals_sent, vp_chaos_signals_sent + 1);
		}
		pthread_mutex_unlock(&g_chaos_lock);
		uint32_t d = g_chaos_period / 2 + vp_rand_n(&r, g_chaos_period + 1);
		if (d < 30)
			vp_spin_cycles((uint64_t) (d * 1000 * (vp_tsc_ghz > 0 ? vp_tsc_ghz : 2.0)));
		else
			usleep(d);
	}
	return NULL;
}
void vp_chaos_start(int cpu_slot, uint32_t period_us, void (*handler_cb)(void))
{
	struct sigaction sa;
	memset(&sa, 0, sizeof(sa));
	sa.sa_handler = chaos_handler;	/* deliberately no SA_RESTART: real EINTR */
	sigemptyset(&sa.sa_mask);
	sigaction(VP_CHAOS_SIG, &sa, NULL);
	g_chaos_cb = handler_cb;
	g_chaos_period = period_us ? period_us : 100;
	g_chaos_slot = cpu_slot;
	g_chaos_stop = 0;
	if (__real_pthread_create(&g_chaos_tid, NULL, chaos_main, NULL) == 0)
		g_chaos_running = 1;
}
void vp_chaos_stop(void)
{
	if (!g_chaos_running)
		return;
	VP_STORE(g_chaos_stop, 1);
	pthread_join(g_chaos_tid, NULL);
	g_chaos_running = 0;
}

/* ================================================================ results */

#define VP_MAX_VIOL 32
#define VP_MAX_SIG 4096
#define VP_MAX_SAMPLES 8
#define VP_MAX_COUNTERS 256
#define VP_MAX_NOTES 32

static pthread_mutex_t g_res_lock = PTHREAD_MUTEX_INITIALIZER;
static struct { char key[160]; char msg[1024]; } g_viol[VP_MAX_VIOL];
static int g_nviol, g_nviol_total;
static char *g_sigs[VP_MAX_SIG];
static int g_nsig;
static uint64_t g_sig_dropped;
static char *g_samples[VP_MAX_SAMPLES];
static int g_nsamples;
static struct { char name[64]; uint64_t v; } g_ctr[VP_MAX_COUNTERS];
static int g_nctr;
static char *g_notes[VP_MAX_NOTES];
static int g_nnotes;
static char *g_inconcl[VP_MAX_NOTES];
static int g_ninconcl;
static uint64_t g_inconcl_total;

void vp_violation(const char *key, const char *fmt, ...)
{
	va_list ap;
	pthread_mutex_lock(&g_res_lock);
	__atomic_store_n(&g_nviol_total, g_nviol_total + 1, __ATOMIC_RELAXED);
	int dup = 0;
	for (int i = 0; i < g_nviol; i++)
		if (!strcmp(g_viol[i].key, key)) { dup = 1; break; }
	if (!dup && g_nviol < VP_MAX_VIOL) {
		snprintf(g_viol[g_nviol].key, sizeof(g_viol[0].key), "%s", key);
		va_start(ap, fmt);
		vsnprintf(g_viol[g_nviol].msg, sizeof(g_viol[0].msg), fmt, ap);
		va_end(ap);
		fprintf(stderr, "VP-VIOLATION key=%s %s\n", key, g_viol[g_nviol].msg);
		g_nviol++;
	}
	pthread_mutex_unlock(&g_res_lock);
}
int vp_nviolations(void)
{
	return __atomic_load_n(&g_nviol_total, __ATOMIC_RELAXED);
}
void vp_inconclusive(const char *what)
{
	pthread_mutex_lock(&g_res_lock);
	g_inconcl_total++;
	int dup = 0;
	for (int i = 0; i < g_ninconcl; i++)
		if (!strcmp(g_inconcl[i], what)) dup = 1;
	if (!dup && g_ninconcl < VP_MAX_NOTES)
		g_inconcl[g_ninconcl++] = strdup(what);
	pthread_mutex_unlock(&g_res_lock);
}
static int ctr_find(const char *name)
{
	for (int i = 0; i < g_nctr; i++)
		if (!strcmp(g_ctr[i].name, name))
			return i;
	if (g_nctr >= VP_MAX_COUNTERS)
		return -1;
	snprintf(g_ctr[g_nctr].name, sizeof(g_ctr[0].name), "%s", name);
	g_ctr[g_nctr].v = 0;
	return g_nctr++;
}
void vp_counter_add(const char *name, uint64_t v)
{
	pthread_mutex_lock(&g_res_lock);
	int i = ctr_find(name);
	if (i >= 0)
		g_ctr[i].v += v;
	pthread_mutex_unlock(&g_res_lock);
}
void vp_counter_set(const char *name, uint64_t v)
{
	pthread_mutex_lock(&g_res_lock);
	int i = ctr_find(name);
	if (i >= 0)
		g_ctr[i].v = v;
	pthread_mutex_unlock(&g_res_lock);
}
static uint32_t str_hash(const char *s)
{
	uint32_t h = 2166136261u;
	while (*s) { h ^= (unsigned char) *s++; h *= 16777619u; }
	return h;
}
void vp_sig_add(const char *fmt, ...)
{
	char buf[256];
	va_list ap;
	va_start(ap, fmt);
	vsnprintf(buf, sizeof(buf), fmt, ap);
	va_end(ap);
	uint32_t h = str_hash(buf) % VP_MAX_SIG;
	pthread_mutex_lock(&g_res_lock);
	for (int probe = 0; probe < VP_MAX_SIG; probe++) {
		uint32_t i = (h + probe) % VP_MAX_SIG;
		if (!g_sigs[i]) {
			if (g_nsig >= VP_MAX_SIG * 3 / 4) { g_sig_dropped++; break; }
			g_sigs[i] = strdup(buf);
			g_nsig++;
			break;
		}
		if (!strcmp(g_sigs[i], buf))
			break;
	}
	pthread_mutex_unlock(&g_res_lock);
}
void vp_sample_add(const char *fmt, ...)
{
	char buf[2048];
	va_list ap;
	if (__atomic_load_n(&g_nsamples, __ATOMIC_RELAXED) >= VP_MAX_SAMPLES)
		return;
	va_start(ap, fmt);
	vsnprintf(buf, sizeof(buf), fmt, ap);
	va_end(ap);
	pthread_mutex_lock(&g_res_lock);
	if (g_nsamples < VP_MAX_SAMPLES) {
		g_samples[g_nsamples] = strdup(buf);
		__atomic_store_n(&g_nsamples, g_nsamples + 1, __ATOMIC_RELAXED);
	}
	pthread_mutex_unlock(&g_res_lock);
}
void vp_note(const char *fmt, ...)
{
	char buf[512];
	va_list ap;
	va_start(ap, fmt);
	vsnprintf(buf, sizeof(buf), fmt, ap);
	va_end(ap);
	pthread_mutex_lock(&g_res_lock);
	if (g_nnotes < VP_MAX_NOTES)
		g_notes[g_nnotes++] = strdup(buf);
	pthread_mutex_unlock(&g_res_lock);
}

FILE *vp_witness_open(const char *tag, char *path_out, size_t path_len)
{
	static int seq;
	char path[512];
	const char *dir = vp_opt.witness_dir ? vp_opt.witness_dir : "/tmp";
	int n = __atomic_fetch_add(&seq, 1, __ATOMIC_RELAXED);
	snprintf(path, sizeof(path), "%s/%s-%s-seed%llu-pid%d-%d.txt", dir, g_harness, tag,
		 (unsigned long long) vp_opt.seed, (int) getpid(), n);
	if (path_out)
		snprintf(path_out, path_len, "%s", path);
	return fopen(path, "w");
}

static void json_str(FILE *f, const char *s)
{
	fputc('"', f);
	for (; *s; s++) {
		unsigned char c = (unsigned char) *s;
		if (c == '"' || c == '\\') { fputc('\\', f); fputc(c, f); }
		else if (c == '\n') fputs("\\n", f);
		else if (c == '\t') fputs("\\t", f);
		else if (c < 0x20 || c >= 0x7f) fprintf(f, "\\u%04x", c);
		else fputc(c, f);
	}
	fputc('"', f);
}

static int write_results(int exit_code_hint)
{
	FILE *f = vp_opt.out ? fopen(vp_opt.out, "w") : stdout;
	if (!f)
		return 2;
	struct vp_fault_stats fs;
	vp_fault_stats_get(&fs);
	fprintf(f, "{\n \"harness\": ");
	json_str(f, g_harness);
	fprintf(f, ",\n \"seed\": %llu,\n \"placement\": %d,\n \"ncpu\": %d,\n \"eps_cycles\": %llu,\n \"tsc_ghz\": %.4f,\n \"wall_s\": %.3f,\n \"exit_hint\": %d,\n",
		(unsigned long long) vp_opt.seed, vp_opt.placement, vp_ncpu,
		(unsigned long long) vp_eps, vp_tsc_ghz,
		(vp_now_ns() - g_t_start_ns) / 1e9, exit_code_hint);
	fprintf(f, " \"args\": [");
	for (int i = 1; i < g_argc; i++) { if (i > 1) fputc(',', f); json_str(f, g_argv[i]); }
	fprintf(f, "],\n \"counters\": {");
	for (int i = 0; i < g_nctr; i++) {
		if (i) fputc(',', f);
		json_str(f, g_ctr[i].name);
		fprintf(f, ": %llu", (unsigned long long) g_ctr[i].v);
	}
	fprintf(f, "},\n \"markers\": {");
	int first = 1;
	for (int p = 1; p < URCU_VP_NR_POINTS; p++) {
		uint64_t h = vp_point_hits(p);
		if (!h) continue;
		if (!first) fputc(',', f);
		first = 0;
		json_str(f, vp_point_names[p] ? vp_point_names[p] : "?");
		fprintf(f, ": %llu", (unsigned long long) h);
	}
	fprintf(f, "},\n \"faults\": {\"futex_wait\": %llu, \"futex_wait_blocked\": %llu, \"futex_wake\": %llu, \"wake_woke\": %llu, \"inj_spurious\": %llu, \"inj_eintr\": %llu, \"inj_enosys\": %llu, \"inj_wake_delay\": %llu, \"membarrier\": %llu, \"membarrier_denied\": %llu, \"chaos_signals_sent\": %llu, \"chaos_signals_handled\": %llu, \"inj_pthread_create_eagain\": %llu, \"inj_wait_enosys\": %llu},\n",
		(unsigned long long) fs.futex_wait, (unsigned long long) fs.futex_wait_blocked,
		(unsigned long long) fs.futex_wake, (unsigned long long) fs.wake_woke,
		(unsigned long long) fs.inj_spurious, (unsigned long long) fs.inj_eintr,
		(unsigned long long) fs.inj_enosys, (unsigned long long) fs.inj_wake_delay,
		(unsigned long long) fs.membarrier, (unsigned long long) fs.membarrier_denied,
		(unsigned long long) vp_chaos_signals_sent, (unsigned long long) vp_chaos_signals_handled,
		(unsigned long long) __atomic_load_n(&vp_create_fail_injected, __ATOMIC_RELAXED),
		(unsigned long long) fs.inj_wait_enosys);
	fprintf(f, " \"signatures\": [");
	first = 1;
	for (int i = 0; i < VP_MAX_SIG; i++) {
		if (!g_sigs[i]) continue;
		if (!first) fputc(',', f);
		first = 0;
		json_str(f, g_sigs[i]);
	}
	fprintf(f, "],\n \"signatures_dropped\": %llu,\n \"samples\": [", (unsigned long long) g_sig_dropped);
	for (int i = 0; i < g_nsamples; i++) { if (i) fputc(',', f); json_str(f, g_samples[i]); }
	fprintf(f, "],\n \"notes\": [");
	for (int i = 0; i < g_nnotes; i++) { if (i) fputc(',', f); json_str(f, g_notes[i]); }
	fprintf(f, "],\n \"inconclusive_total\": %llu,\n \"inconclusive\": [", (unsigned long long) g_inconcl_total);
	for (int i = 0; i < g_ninconcl; i++) { if (i) fputc(',', f); json_str(f, g_inconcl[i]); }
	fprintf(f, "],\n \"violations_total\": %d,\n \"violations\": [", g_nviol_total);
	for (int i = 0; i < g_nviol; i++) {
		if (i) fputc(',', f);
		fprintf(f, "{\"key\": ");
		json_str(f, g_viol[i].key);
		fprintf(f, ", \"msg\": ");
		json_str(f, g_viol[i].msg);
		fputc('}', f);
	}
	fprintf(f, "]\n}\n");
	if (f != stdout)
		fclose(f);
	else
		fflush(stdout);
	return 0;
}

int vp_finish(void)
{
	vp_chaos_stop();
	vp_watchdog_stop();
	int code = g_nviol_total ? 1 : 0;
	if (write_results(code))
		return 2;
	return code;
}

/* ================================================================ watchdog */

uint64_t vp_wd_extra_progress;
static pthread_t g_wd_tid;
static int g_wd_stop, g_wd_running;
static uint64_t g_wd_stall_ms;
static int (*g_wd_confirm)(char *, size_t);

void vp_dump_threads(FILE *f)
{
	DIR *d = opendir("/proc/self/task");
	struct dirent *de;
	if (!d)
		return;
	while ((de = readdir(d))) {
		char p[300], buf[512];
		if (de->d_name[0] == '.')
			continue;
		fprintf(f, "task %s:", de->d_name);
		const char *files[] = { "comm", "wchan", "syscall", NULL };
		for (int i = 0; files[i]; i++) {
			snprintf(p, sizeof(p), "/proc/self/task/%s/%s", de->d_name, files[i]);
			int fd = open(p, O_RDONLY);
			if (fd < 0)
				continue;
			ssize_t n = read(fd, buf, sizeof(buf) - 1);
			close(fd);
			if (n > 0) {
				buf[n] = 0;
				while (n > 0 && buf[n - 1] == '\n') buf[--n] = 0;
				fprintf(f, " %s=[%s]", files[i], buf);
			}
		}
		snprintf(p, sizeof(p), "/proc/self/task/%s/stat", de->d_name);
		int fd = open(p, O_RDONLY);
		if (fd >= 0) {
			ssize_t n = read(fd, buf, sizeof(buf) - 1);
			close(fd);
			if (n > 0) {
				buf[n] = 0;
				char *rp = strrchr(buf, ')');
				if (rp && rp[1] && rp[2])
					fprintf(f, " state=%c", rp[2]);
			}
		}
		fputc('\n', f);
	}
	closedir(d);
}

static uint64_t total_progress(void)
{
	uint64_t s = VP_LOAD(vp_wd_extra_progress);
	int n = __atomic_load_n(&g_thr_used, __ATOMIC_ACQUIRE);
	for (int i = 0; i < n; i++)
		s += __atomic_load_n(&g_thr_pool[i].progress, __ATOMIC_RELAXED);
	return s;
}

static void *wd_main(void *arg)
{
	(void) arg;
	sigset_t all;
	sigfillset(&all);
	pthread_sigmask(SIG_BLOCK, &all, NULL);
	vp_pin_cpu(vp_cpus[vp_ncpu - 1]);
	uint64_t last = total_progress(), last_change = vp_now_ns();
	while (!VP_LOAD(g_wd_stop)) {
		usleep(100000);
		uint64_t p = total_progress();
		uint64_t now = vp_now_ns();
		if (p != last) {
			last = p;
			last_change = now;
			continue;
		}
		if (now - last_change < g_wd_stall_ms * 1000000ULL)
			continue;
		char buf[512] = "";
		int confirmed = g_wd_confirm ? g_wd_confirm(buf, sizeof(buf)) : 0;
		char path[512] = "";
		FILE *w = vp_witness_open("stuck", path, sizeof(path));
		if (w) {
			fprintf(w, "no progress for %llu ms; state: %s\n",
				(unsigned long long) g_wd_stall_ms, buf);
			vp_dump_threads(w);
			fclose(w);
		}
		if (confirmed) {
			vp_violation(buf[0] ? buf : "hang", "stuck state confirmed; witness=%s", path);
			write_results(1);
			_exit(1);
		}
		vp_inconclusive(buf[0] ? buf : "watchdog: no progress, stuck state not confirmed");
		write_results(4);
		_exit(4);
	}
	return NULL;
}

void vp_watchdog_start(uint64_t stall_ms, int (*confirm_stuck)(char *, size_t))
{
	g_wd_stall_ms = stall_ms;
	g_wd_confirm = confirm_stuck;
	g_wd_stop = 0;
	if (__real_pthread_create(&g_wd_tid, NULL, wd_main, NULL) == 0)
		g_wd_running = 1;
}
void vp_watchdog_stop(void)
{
	if (!g_wd_running)
		return;
	VP_STORE(g_wd_stop, 1);
	pthread_join(g_wd_tid, NULL);
	g_wd_running = 0;
}

/* ================================================================ quarantine / guard pages */

void vp_quar_init(struct vp_quar *q, size_t cap, void (*release)(void *))
{
	memset(q, 0, sizeof(*q));
	q->ring = calloc(cap, sizeof(void *));
	q->cap = cap;
	q->release = release;
	pthread_mutex_init(&q->lock, NULL);
}
void vp_quar_put(struct vp_quar *q, void *obj)
{
	void *old = NULL;
	pthread_mutex_lock(&q->lock);
	if (q->count == q->cap) {
		old = q->ring[q->head];
		q->ring[q->head] = obj;
		q->head = (q->head + 1) % q->cap;
	} else {
		q->ring[(q->head + q->count) % q->cap] = obj;
		q->count++;
	}
	pthread_mutex_unlock(&q->lock);
	if (old && q->release)
		q->release(old);
}
void vp_quar_drain(struct vp_quar *q)
{
	pthread_mutex_lock(&q->lock);
	while (q->count) {
		void *o = q->ring[q->head];
		q->head = (q->head + 1) % q->cap;
		q->count--;
		if (q->release)
			q->release(o);
	}
	pthread_mutex_unlock(&q->lock);
}

#define VP_GUARD_MAX 30000
static struct { char *base; size_t len; char *user; size_t size; int freed; uint64_t t_free; } g_guard[VP_GUARD_MAX];
static int g_guard_n;
static pthread_mutex_t g_guard_lock = PTHREAD_MUTEX_INITIALIZER;

void *vp_guard_alloc(size_t size, size_t align)
{
	size_t pg = 4096;
	if (align < 8)
		align = 8;
	size_t body = (size + pg - 1) & ~(pg - 1);
	if (body == 0)
		body = pg;
	size_t len = body + pg;
	pthread_mutex_lock(&g_guard_lock);
	if (g_guard_n >= VP_GUARD_MAX) {
		pthread_mutex_unlock(&g_guard_lock);
		return NULL;
	}
	int idx = g_guard_n++;
	pthread_mutex_unlock(&g_guard_lock);
	char *base = mmap(NULL, len, PROT_READ | PROT_WRITE, MAP_PRIVATE | MAP_ANONYMOUS, -1, 0);
	if (base == MAP_FAILED) {
		g_guard[idx].base = NULL;
		return NULL;
	}
	mprotect(base + body, pg, PROT_NONE);
	char *user = base + body - size;
	user = (char *) ((uintptr_t) user & ~(uintptr_t) (align - 1));
	g_guard[idx].base = base;
	g_guard[idx].len = len;
	g_guard[idx].user = user;
	g_guard[idx].size = size;
	g_guard[idx].freed = 0;
	return user;
}
void vp_guard_free(void *p)
{
	int n = __atomic_load_n(&g_guard_n, __ATOMIC_ACQUIRE);
	for (int i = n - 1; i >= 0; i--) {
		if (g_guard[i].user == p && !g_guard[i].freed) {
			g_guard[i].freed = 1;
			g_guard[i].t_free = vp_rdtsc();
			mprotect(g_guard[i].base, g_guard[i].len, PROT_NONE);
			return;
		}
	}
	fprintf(stderr, "vp_guard_free: unknown pointer %p\n", p);
	abort();
}
int vp_guard_classify(const void *addr, char *buf, size_t len)
{
	int n = g_guard_n;
	for (int i = 0; i < n; i++) {
		if (!g_guard[i].base)
			continue;
		if ((const char *) addr >= g_guard[i].base && (const char *) addr < g_guard[i].base + g_guard[i].len) {
			snprintf(buf, len, "guard-alloc#%d size=%zu off=%ld %s", i, g_guard[i].size,
				 (long) ((const char *) addr - g_guard[i].user),
				 g_guard[i].freed ? "FREED" : "live(overflow)");
			return 1;
		}
	}
	return 0;
}

/* ================================================================ barrier */

void vp_barrier_init(struct vp_barrier *b, int n)
{
	b->count = 0;
	b->sense = 0;
	b->n = n;
}
void vp_barrier_wait(struct vp_barrier *b)
{
	int s = __atomic_load_n(&b->sense, __ATOMIC_ACQUIRE);
	if (__atomic_add_fetch(&b->count, 1, __ATOMIC_ACQ_REL) == b->n) {
		__atomic_store_n(&b->count, 0, __ATOMIC_RELAXED);
		__atomic_store_n(&b->sense, !s, __ATOMIC_RELEASE);
		return;
	}
	uint64_t spins = 0;
	while (__atomic_load_n(&b->sense, __ATOMIC_ACQUIRE) == s) {
		if (++spins > 20000)
			sched_yield();
		else
			__asm__ __volatile__("pause");
	}
}

/* ================================================================ crash capture */

#if !VP_ASAN && !VP_TSAN
static void crash_handler(int sig, siginfo_t *si, void *uc_)
{
	ucontext_t *uc = uc_;
	char cls[256] = "unclassified";
	void *addr = si ? si->si_addr : NULL;
	if (sig == SIGSEGV || sig == SIGBUS) {
		if (!vp_guard_classify(addr, cls, sizeof(cls))) {
			if (((uintptr_t) addr >> 32) == 0xdead4eadULL || addr == NULL)
				snprintf(cls, sizeof(cls), "%s", addr ? "poisoned-pointer" : "null");
			else if ((uintptr_t) addr >= 0x0000800000000000ULL)
				snprintf(cls, sizeof(cls), "non-canonical(poison?)");
		}
	}
	fprintf(stderr, "VP-CRASH sig=%d addr=%p class=[%s] rip=%p\n", sig, addr, cls,
		uc ? (void *) uc->uc_mcontext.gregs[REG_RIP] : NULL);
	vp_dump_threads(stderr);
	signal(sig, SIG_DFL);
	raise(sig);
}
#endif

static void install_crash_handlers(void)
{
#if !VP_ASAN && !VP_TSAN
	static char altstack[65536];
	stack_t ss = { .ss_sp = altstack, .ss_size = sizeof(altstack) };
	sigaltstack(&ss, NULL);
	struct sigaction sa;
	memset(&sa, 0, sizeof(sa));
	sa.sa_sigaction = crash_handler;
	sa.sa_flags = SA_SIGINFO | SA_ONSTACK | SA_RESETHAND;
	sigemptyset(&sa.sa_mask);
	sigaction(SIGSEGV, &sa, NULL);
	sigaction(SIGBUS, &sa, NULL);
#endif
}

/* ================================================================ init */

#include "vp_point_names.h"

void vp_init(int argc, char **argv, const char *harness_name)
{
	g_argc = argc;
	g_argv = argv;
	g_harness = harness_name;
	g_t_start_ns = vp_now_ns();
	vp_opt.seed = (uint64_t) vp_arg_long("seed", 1);
	vp_opt.out = vp_arg("out", NULL);
	vp_opt.witness_dir = vp_arg("witness-dir", NULL);
	vp_opt.placement = (int) vp_arg_long("placement", -1);
	vp_opt.tier = !strcmp(vp_arg("tier", "quick"), "thorough");
	vp_opt.scale = vp_arg_double("scale", 1.0);
	setvbuf(stderr, NULL, _IOLBF, 0);
	placement_init();
	install_crash_handlers();
	vp_calibrate_clock();
	if (vp_arg_long("no-membarrier", 0) && !vp_fault.no_membarrier)
		fprintf(stderr, "warning: --no-membarrier needs env VP_NO_MEMBARRIER=1 (constructor ordering)\n");
	vp_fault.wait_spurious = (uint32_t) (vp_arg_double("f-spurious", 0) * (1 << 20));
	vp_fault.wait_eintr = (uint32_t) (vp_arg_double("f-eintr", 0) * (1 << 20));
	vp_fault.wake_delay = (uint32_t) (vp_arg_double("f-wake-delay", 0) * (1 << 20));
	vp_fault.futex_enosys = (int) vp_arg_long("f-enosys", 0);
	vp_fault.wait_enosys = (uint32_t) (vp_arg_double("f-enosys-wait", 0) * (1 << 20));
	vp_create_fail_prob = (uint32_t) (vp_arg_double("f-create-eagain", 0) * (1 << 20));
	(void) vp_self();
}
