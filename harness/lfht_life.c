/*
 * lfht_life.c - C07 (single owner, unreachable after a grace period; bucket arrays and the
 * table itself likewise) and C09 (resize terminates, preserves contents, respects bounds,
 * allocate-before-publish / release-after-grace-period, destroy with queued resizes).
 *
 * The run is a sequence of ROUNDS.  A round creates one table (bucket allocator order / chunk /
 * mmap / library default; memory from the library's libc allocator, from a recording
 * guard-page `struct cds_lfht_alloc`, or from a recording malloc-backed one), starts pinned
 * threads in five roles (lfht_life_roles.h), joins them, checks the quiescent state (exactly
 * one owner per absent node, residents present, size bounds), empties the table, destroys it
 * from a thread that is outside any read-side section (offline for qsbr) and waits until the
 * library has handed the table structure back to the allocator.
 *
 * Oracles
 *   ownership     atomic counter per node life, incremented at every "obtained" result
 *                 (del == 0, replace == 0, add_replace returning the node): must have been 0;
 *                 losers must get -ENOENT; at quiescence absent <=> exactly one owner.
 *   reclamation   owner waits synchronize_rcu() or call_rcu(), then poisons the node
 *                 (state word, next = non-canonical pointer) and quarantines it with a canary
 *                 check on release (plain), really frees it (asan / tsan), or unmaps it
 *                 (guard-page subset).  Every traversal validates {state, id, checksum} of every
 *                 node it meets: in the harness and, through the match callback, inside the
 *                 library's own chain walks.
 *   bucket memory guard-page allocator: a bucket array, the split counters, the resize work
 *                 items and `struct cds_lfht` become PROT_NONE when the library releases them;
 *                 nothing is ever reused, so any use after release or before allocation faults
 *                 and the crash handler names the object.  Live bucket nodes never exceed
 *                 max(max_nr_buckets, min_nr_alloc_buckets).  Double release is reported.
 *   residency     keys inserted before the round and never removed must be found by every
 *                 lookup and exactly once by every complete traversal; an updater must find its
 *                 own nodes.
 *   bounds        ht->size (internal header) is checked by readers before each lookup, at every
 *                 resize-loop iteration, before each publish, after each shrink store, after
 *                 each cds_lfht_resize(): 1 <= size <= max_nr_buckets, power of two.
 *   termination   step budget on URCU_VP_HT_RESIZE_LOOP (see life_hook) + stuck-state watchdog.
 */
#include "vp.h"
#include "vp_flavor.h"
#include <limits.h>
#include <sys/syscall.h>
#include <fcntl.h>
#include <execinfo.h>
#include <dirent.h>
#include "rculfhash-internal.h"
#include "lfht_life_ga.h"
#include "lfht_life_core.h"

/* extra rcfg bits kept out of the struct literal order */
static int rc_upd_inf, rc_res_inf;
#define UPD_INF rc_upd_inf
#define RES_INF rc_res_inf

#include "lfht_life_roles.h"

extern unsigned int vp_tun_count_commit_order, vp_tun_min_part_order;

static pthread_t g_main_tid;
static long opt_rounds, opt_cont, opt_upd, opt_resident, opt_walk, opt_res, opt_cont_ops, opt_upd_ops, opt_res_calls,
	opt_mm, opt_ak, opt_flags, opt_max_order, opt_pop_hi, opt_sig, opt_stall_ms;
static double opt_hook_prob;

/* ------------------------------------------------------------------ configuration of a round */

static const struct cds_lfht_mm_type *mm_ptr(int mm)
{
	switch (mm) {
	case 0: return &cds_lfht_mm_order;
	case 1: return &cds_lfht_mm_chunk;
	case 2: return &cds_lfht_mm_mmap;
	default: return NULL;
	}
}

static void build_requests(struct vp_rng *r)
{
	unsigned long M = g_rc.max_eff;
	int n = 0;
	if (g_mode == MODE_OWN || g_mode == MODE_DESTROY) {
		static const unsigned long cyc[] = { 64, 1, 32, 2, 3, 16, 0, 8, 5, 1, 4, 64, 7, 2, 1, 6, 32, 1 };
		for (unsigned i = 0; i < sizeof(cyc) / sizeof(cyc[0]); i++)
			g_requests[n++] = cyc[i] > g_rc.res_cycle_max ? g_rc.res_cycle_max : cyc[i];
		g_nrequests = n;
		return;
	}
	if (g_rc.big) {
		unsigned long v[] = { M, 1UL << 12, M / 2 + 1, 1000, M + 1, 1UL << 14, M - 1, 1UL << 13, 2 * M, 3, ULONG_MAX, M / 4 };
		for (unsigned i = 0; i < sizeof(v) / sizeof(v[0]); i++)
			g_requests[n++] = v[i];
		g_nrequests = n;
		return;
	}
	static const unsigned long fixed[] = { 0, 1, 2, 3, 5, 6, 7, 1000 };
	for (unsigned i = 0; i < 8; i++)
		g_requests[n++] = fixed[i];
	int mo = order_of(M);
	for (int k = 0; k < 6; k++) {
		unsigned long p = 1UL << vp_rand_n(r, (uint32_t) mo + 2);
		g_requests[n++] = p;
		g_requests[n++] = p + 1;
		g_requests[n++] = p - 1;
	}
	unsigned long tail[] = { M, M + 1, 2 * M, ULONG_MAX, M - 1, M / 2, M / 2 + 1, ULONG_MAX - 1, (1UL << 63) + 1 };
	for (unsigned i = 0; i < sizeof(tail) / sizeof(tail[0]); i++)
		g_requests[n++] = tail[i];
	/* shuffle, so that every request meets every start size over the rounds */
	for (int i = n - 1; i > 0; i--) {
		int j = (int) vp_rand_n(r, (uint32_t) i + 1);
		unsigned long tmp = g_requests[i];
		g_requests[i] = g_requests[j];
		g_requests[j] = tmp;
	}
	g_nrequests = n;
}

static void gen_rcfg(struct vp_rng *r, uint64_t round)
{
	struct rcfg *c = &g_rc;
	memset(c, 0, sizeof(*c));
	rc_upd_inf = rc_res_inf = 0;
	c->mm = opt_mm >= 0 ? (int) opt_mm : (int) (round % 4);
	if (opt_ak >= 0)
		c->ak = (int) opt_ak;
	else {
		static const int rot[] = { AK_GUARD, AK_GUARD, AK_LOG, AK_GUARD, AK_DEFAULT, AK_GUARD, AK_GUARD };
		c->ak = rot[(round / 4 + round) % 7];
	}
	c->flags = opt_flags >= 0 ? (int) opt_flags : (int) ((round / 2 + round / 5) % 4);
	c->nres_keys = 16;
	c->walk_full = 1;
	c->sig = (int) opt_sig;
	c->hmask = ~0UL;
	c->res_cycle_max = 64;
	c->pop_hi = opt_pop_hi;
	c->pop_lo = 0;
	int mo;
	switch (g_mode) {
	case MODE_OWN:
		c->n_role[R_CONT] = 2 + (int) vp_rand_n(r, (uint32_t) (opt_cont > 1 ? opt_cont - 1 : 1));
		c->n_role[R_WALK] = (int) opt_walk;
		c->n_role[R_UPD] = opt_upd ? (int) vp_rand_n(r, (uint32_t) opt_upd + 1) : 0;
		c->n_role[R_RES] = opt_res ? (int) (round % 2) : 0;
		c->n_role[R_RESIDENT] = (int) opt_resident;
		rc_upd_inf = rc_res_inf = 1;
		c->nkeys = 1 + (int) vp_rand_n(r, 3);
		c->ndup = (int) vp_rand_n(r, 3);
		c->hashmode = (int) vp_rand_n(r, 4);
		c->init = 1UL << vp_rand_n(r, 4);
		c->min_alloc = 1UL << vp_rand_n(r, 3);
		mo = opt_max_order >= 0 ? (int) opt_max_order : 4 + (int) vp_rand_n(r, 5);
		c->max = 1UL << mo;
		if (c->mm == 0 && !(c->flags & CDS_LFHT_AUTO_RESIZE) && vp_rand_n(r, 4) == 0)
			c->max = 0;	/* "infinite": never with AUTO_RESIZE (colliding keys would grow the table without bound) */
		c->hmask = 0x3f;
		c->pop_hi = 48;
		break;
	case MODE_RESIZE:
		c->n_role[R_RES] = opt_res > 0 ? 1 + (int) (round % (uint64_t) opt_res) : 1;
		c->n_role[R_RESIDENT] = (int) opt_resident;
		c->n_role[R_UPD] = (int) opt_upd;
		c->n_role[R_WALK] = opt_walk ? (int) (round % 2) : 0;
		c->n_role[R_CONT] = (opt_cont && round % 3 == 2) ? 2 : 0;
		rc_upd_inf = 1;
		c->nkeys = 2;
		c->ndup = 1;
		c->hashmode = (int) vp_rand_n(r, 4);
		{
			static const int mos[] = { 10, 3, 8, 0, 5, 12, 1, 2, 10, 6 };
			mo = opt_max_order >= 0 ? (int) opt_max_order : mos[round % 10];
		}
		c->max = 1UL << mo;
		c->init = 1UL << vp_rand_n(r, (uint32_t) mo + 2);
		if (vp_rand_n(r, 4) == 0)
			c->init = 1;
		c->min_alloc = 1UL << vp_rand_n(r, 5);
		{
			static const unsigned long hm[] = { ~0UL, 0xffffUL, 0xffUL, ~0UL << 52, 0xfUL };
			c->hmask = hm[vp_rand_n(r, 5)];
		}
		c->nres_keys = 64;
		break;
	case MODE_DESTROY:
		c->n_role[R_UPD] = (int) (opt_upd > 0 ? opt_upd : 2);
		c->n_role[R_WALK] = opt_walk ? (int) (round % 2) : 0;
		c->n_role[R_RES] = opt_res ? (int) ((round / 2) % 2) : 0;
		rc_res_inf = 1;
		if (opt_flags < 0) {
			static const int fl[] = { 1, 3, 1, 0, 3, 2 };
			c->flags = fl[round % 6];
		}
		c->destroy_pending = 1;
		c->nres_keys = 0;
		c->final_burst = (c->flags & CDS_LFHT_AUTO_RESIZE) ? 6 + (int) vp_rand_n(r, 6) : 0;
		c->init = 1UL << vp_rand_n(r, 3);
		c->min_alloc = 1UL << vp_rand_n(r, 3);
		mo = opt_max_order >= 0 ? (int) opt_max_order : 6 + (int) vp_rand_n(r, 7);
		c->max = 1UL << mo;
		c->hmask = 0xfffUL;
		break;
	case MODE_BIG:
	default:
		c->big = 1;
		c->walk_full = 0;
		c->n_role[R_RES] = opt_res > 0 ? 1 + (int) (round % (uint64_t) opt_res) : 1;
		c->n_role[R_RESIDENT] = (int) opt_resident;
		c->n_role[R_UPD] = (int) opt_upd;
		c->n_role[R_WALK] = (int) opt_walk;
		rc_upd_inf = 1;
		mo = opt_max_order >= 0 ? (int) opt_max_order : 15 + (int) (round % 3);
		c->max = 1UL << mo;
		c->init = 1UL << (10 + vp_rand_n(r, 4));
		c->min_alloc = 1UL << vp_rand_n(r, 9);
		c->nres_keys = 256;
		if (opt_flags < 0)
			c->flags = (round % 2) ? 3 : 0;
		break;
	}
	if (c->mm == 1 && c->max > (1UL << 20))
		c->max = 1UL << 20;
	if (c->max == 0 && c->mm != 0)
		c->max = 1UL << 8;
	c->max_eff = c->max ? c->max : (1UL << 12);
	if (c->max_eff < c->min_alloc && c->max)
		c->max_eff = c->min_alloc;	/* library raises max to min_nr_alloc_buckets */
	if (c->res_cycle_max > c->max_eff)
		c->res_cycle_max = c->max_eff;
	c->cont_ops = opt_cont_ops;
	c->upd_ops = opt_upd_ops;
	c->res_calls = opt_res_calls;
	c->nresgrp = c->n_role[R_RESIDENT] > 0 ? c->n_role[R_RESIDENT] : 1;
	if (c->nresgrp > MAXRESGRP)
		c->nresgrp = MAXRESGRP;
	if (c->nres_keys == 0)
		c->nresgrp = 1;
	/* hot key hashes */
	unsigned long h0 = (unsigned long) vp_rand(r);
	uint32_t hx = vp_rand_n(r, 8);
	if (hx == 0)
		h0 = 0;
	else if (hx == 1)
		h0 = ~0UL;
	else if (hx == 2)
		h0 = vp_rand_n(r, 8);	/* equals a bucket index */
	for (int k = 0; k < MAXHOT; k++) {
		switch (c->hashmode) {
		case 0: g_hot_hash[k] = h0; break;				/* all equal */
		case 1: g_hot_hash[k] = (unsigned long) k; break;		/* bucket indices */
		case 2: g_hot_hash[k] = (h0 & 0xff) | ((unsigned long) k << 58); break;	/* differ in high bits only */
		default: g_hot_hash[k] = (k & 1) ? h0 : (unsigned long) mix64((uint64_t) k + h0); break;
		}
	}
	snprintf(c->str, sizeof(c->str), "mm=%s alloc=%s flags=%s%s init=%lu min=%lu max=%lu threads=c%d/u%d/r%d/w%d/z%d keys=%d+%d hashmode=%d hmask=%lx",
		 mm_names[c->mm], ak_names[c->ak], (c->flags & 1) ? "AUTO_RESIZE" : "0", (c->flags & 2) ? "|ACCOUNTING" : "",
		 c->init, c->min_alloc, c->max, c->n_role[R_CONT], c->n_role[R_UPD], c->n_role[R_RESIDENT], c->n_role[R_WALK],
		 c->n_role[R_RES], c->nkeys, c->ndup, c->hashmode, c->hmask);
	build_requests(r);
}

/* ------------------------------------------------------------------ table life */

static void wait_flag(int *flag, int call)
{
	struct thr *t = &T[MAIN_T];
	VP_STORE(t->in_call, call);
	uint64_t spins = 0;
	while (!__atomic_load_n(flag, __ATOMIC_ACQUIRE)) {
		if (++spins < 200)
			sched_yield();
		else
			usleep(100);
	}
	VP_STORE(t->in_call, CALL_NONE);
	VP_STORE(t->vt->progress, t->vt->progress + 1);
}

/*
 * The library has no "flush" entry point, but its work queue is FIFO with a single worker: the
 * destroy work of a throw-away AUTO_RESIZE table runs after everything queued before it, and
 * the recording allocator sees the table structure come back.
 */
static void wq_flush(void)
{
	struct tstate *ts = tstate_new(AK_GUARD);
	struct cds_lfht *d = _cds_lfht_new_with_alloc(1, 1, 1, CDS_LFHT_AUTO_RESIZE, &cds_lfht_mm_order, &rcu_flavor, &ts->a, NULL);
	if (!d) {
		fprintf(stderr, "lfht_life: cannot create flush table\n");
		exit(2);
	}
	VP_STORE(T[MAIN_T].in_call, CALL_FLUSH);
	int ret = cds_lfht_destroy(d, NULL);
	if (ret) {
		vp_violation("lfht:destroy:empty-table-refused", "cds_lfht_destroy of a fresh empty AUTO_RESIZE table returned %d", ret);
		fatal_exit();
	}
	wait_flag(&ts->ht_freed, CALL_FLUSH);
	tot_flushes++;
}

static void table_new(void)
{
	struct rcfg *c = &g_rc;
	g_ts = c->ak == AK_DEFAULT ? NULL : tstate_new(c->ak);
	struct cds_lfht *ht = _cds_lfht_new_with_alloc(c->init, c->min_alloc, c->max, c->flags, mm_ptr(c->mm), &rcu_flavor,
						       g_ts ? &g_ts->a : NULL, NULL);
	if (!ht) {
		fprintf(stderr, "lfht_life: cds_lfht_new failed for {%s}\n", c->str);
		exit(2);
	}
	if (g_ts) {
		unsigned long b = ht->max_nr_buckets > ht->min_nr_alloc_buckets ? ht->max_nr_buckets : ht->min_nr_alloc_buckets;
		__atomic_store_n(&g_ts->bound, b, __ATOMIC_RELEASE);
	}
	c->max_eff = ht->max_nr_buckets < (1UL << 20) ? ht->max_nr_buckets : c->max_eff;
	check_size_bounds(ht, ht_size(ht), "after cds_lfht_new");
	VP_STORE(g_ht, ht);
	tot_tables++;
}

static void table_destroy(void)
{
	struct cds_lfht *ht = g_ht;
	struct thr *t = &T[MAIN_T];
	int is_auto = g_rc.flags & CDS_LFHT_AUTO_RESIZE;
	long pending = g_ts ? __atomic_load_n(&g_ts->works_out, __ATOMIC_SEQ_CST) : 0;
	int running = VP_LOAD(g_worker_active);
	tot_destroy++;
	if (pending > 0)
		tot_destroy_pending_work++;
	if (running)
		tot_destroy_resize_running++;
	VP_STORE(t->in_call, CALL_DESTROY);
	int ret = cds_lfht_destroy(ht, NULL);	/* main thread: registered, outside any section, offline (qsbr) */
	VP_STORE(t->in_call, CALL_NONE);
	if (ret) {
		vp_violation("lfht:destroy:empty-table-refused",
			     "cfg=%s round=%llu {%s}: cds_lfht_destroy returned %d on a table from which every node had been removed "
			     "(every del returned 0 before its read-side section ended)", g_cfgname, (unsigned long long) g_round, g_rc.str, ret);
		fatal_exit();
	}
	if (g_ts)
		wait_flag(&g_ts->ht_freed, CALL_DESTROY);
	else if (is_auto)
		wq_flush();
	VP_STORE(g_ht, NULL);
	/* the worker closes its last evaluation record (reads the round configuration) when it goes idle */
	VP_STORE(t->in_call, CALL_FLUSH);
	while (__atomic_load_n(&g_worker_active, __ATOMIC_ACQUIRE))
		usleep(50);
	VP_STORE(t->in_call, CALL_NONE);
	if (g_ts) {
		long leaks = __atomic_load_n(&g_ts->live_allocs, __ATOMIC_RELAXED);
		if (leaks) {
			tot_leaks += (uint64_t) leaks;
			vp_note("round %llu {%s}: %ld allocation(s) of the table not handed back after destroy completed (not judged)",
				(unsigned long long) g_round, g_rc.str, leaks);
		}
		tot_alloc_events += (uint64_t) (g_ts->n_alloc + g_ts->n_free);
		if (pending > 0 && g_prop == 9)
			vp_sig_add("destroy:queued-work:%s/%s:%s", mm_names[g_rc.mm], ak_names[g_rc.ak], running ? "resize-running" : "queued");
	}
	g_ts = NULL;
}

/* ------------------------------------------------------------------ one round */

static void main_online(void) { vp_rcu_online(); }
static void main_offline(void) { vp_rcu_offline(); }

static void insert_residents(void)
{
	struct thr *t = &T[MAIN_T];
	for (int g = 0; g < g_rc.nresgrp; g++)
		for (int i = 0; i < g_rc.nres_keys; i++) {
			uint64_t key = RES_BASE + ((uint64_t) g << 16) + (uint64_t) i;
			struct lnode *n = node_new(t, key);
			if (i % 5 == 0)
				n->hash = g_hot_hash[i % MAXHOT];	/* some residents share the hot chains */
			rcu_read_lock();
			struct cds_lfht_node *ret = cds_lfht_add_unique(g_ht, n->hash, match_fn, &key, &n->node);
			rcu_read_unlock();
			if (ret != &n->node) {
				fprintf(stderr, "lfht_life: resident insert failed\n");
				exit(2);
			}
			life_of_id(n->id)->inserted = 1;
			g_resnode[g][i] = n;
			g_resid[g][i] = n->id;
			vp_rcu_qs();
		}
}

static void quiescent_checks(void)
{
	struct thr *t = &T[MAIN_T];
	struct cds_lfht_iter it;
	uint64_t present = 0;
	/* residents by lookup */
	for (int g = 0; g < g_rc.nresgrp; g++)
		for (int i = 0; i < g_rc.nres_keys; i++) {
			uint64_t key = g_resnode[g][i]->key;
			rcu_read_lock();
			cds_lfht_lookup(g_ht, g_resnode[g][i]->hash, match_fn, &key, &it);
			struct cds_lfht_node *nd = cds_lfht_iter_get_node(&it);
			if (!nd || caa_container_of(nd, struct lnode, node) != g_resnode[g][i])
				resident_missed(t, g, i, nd ? caa_container_of(nd, struct lnode, node) : NULL,
						"cds_lfht_lookup after all threads were joined");
			rcu_read_unlock();
			vp_rcu_qs();
		}
	/* who is in the table */
	rcu_read_lock();
	cds_lfht_first(g_ht, &it);
	struct cds_lfht_node *nd;
	while ((nd = cds_lfht_iter_get_node(&it)) != NULL) {
		struct lnode *n = caa_container_of(nd, struct lnode, node);
		validate(n, "quiescent traversal");
		struct life *l = life_of_id(n->id);
		if (!l || l->p != n) {
			vp_violation("lfht:owner:unknown-node-in-table", "cfg=%s round=%llu {%s}: traversal found node %p id=%llx which no thread "
				     "of this round inserted", g_cfgname, (unsigned long long) g_round, g_rc.str, (void *) n, (unsigned long long) n->id);
			VP_STORE(g_abort, 1);
			break;
		}
		if (l->present) {
			vp_violation("lfht:owner:node-linked-twice", "cfg=%s round=%llu {%s}: quiescent traversal met node id=%llx twice",
				     g_cfgname, (unsigned long long) g_round, g_rc.str, (unsigned long long) n->id);
			VP_STORE(g_abort, 1);
			break;
		}
		l->present = 1;
		present++;
		cds_lfht_next(g_ht, &it);
	}
	rcu_read_unlock();
	vp_rcu_qs();
	tot_quiescent_present += present;
	if (VP_LOAD(g_abort))
		return;
	for (int i = 0; i < MAXT; i++) {
		struct thr *o = &T[i];
		for (uint32_t k = 0; k < o->nlives; k++) {
			struct life *l = &o->lives[k];
			uint8_t owners = __atomic_load_n(&l->owners, __ATOMIC_RELAXED);
			tot_lives++;
			if (!l->inserted) {
				if (owners || l->present) {
					vp_violation("lfht:owner:never-inserted-node-obtained",
						     "cfg=%s round=%llu {%s}: node life %d/%u was never successfully added but has %u owner(s), present=%u",
						     g_cfgname, (unsigned long long) g_round, g_rc.str, i, k, owners, l->present);
					VP_STORE(g_abort, 1);
				}
				continue;
			}
			if (l->present && owners) {
				vp_violation("lfht:owner:obtained-node-still-in-table",
					     "cfg=%s round=%llu {%s}: node life %d/%u was obtained by %s (thread %u) but the quiescent traversal still finds it",
					     g_cfgname, (unsigned long long) g_round, g_rc.str, i, k, op_names[l->winner_op & 3], l->winner_thr);
				VP_STORE(g_abort, 1);
			} else if (!l->present && owners == 0) {
				vp_violation("lfht:owner:absent-node-has-no-owner",
					     "cfg=%s round=%llu {%s}: node life %d/%u (node %p) was added, is no longer in the table at quiescence, but no "
					     "del / replace / add_replace call obtained it: zero owners", g_cfgname, (unsigned long long) g_round,
					     g_rc.str, i, k, (void *) l->p);
				VP_STORE(g_abort, 1);
			}
			if (owners) {
				tot_lives_removed++;
				if (l->contended)
					tot_contended++;
			}
		}
	}
}

static void empty_table(void)
{
	struct thr *t = &T[MAIN_T];
	size_t cap = 1024, n = 0;
	struct lnode **v = malloc(cap * sizeof(*v));
	struct cds_lfht_iter it;
	struct cds_lfht_node *nd;
	rcu_read_lock();
	cds_lfht_first(g_ht, &it);
	while ((nd = cds_lfht_iter_get_node(&it)) != NULL) {
		if (n == cap) {
			cap *= 2;
			v = realloc(v, cap * sizeof(*v));
		}
		v[n++] = caa_container_of(nd, struct lnode, node);
		cds_lfht_next(g_ht, &it);
	}
	rcu_read_unlock();
	for (size_t i = 0; i < n && !VP_LOAD(g_abort); i++) {
		rcu_read_lock();
		int ret = cds_lfht_del(g_ht, &v[i]->node);
		rcu_read_unlock();
		if (ret) {
			vp_violation("lfht:owner:sole-remover-failed", "cfg=%s round=%llu {%s}: emptying the table single-threaded: cds_lfht_del "
				     "of node id=%llx returned %d", g_cfgname, (unsigned long long) g_round, g_rc.str,
				     (unsigned long long) v[i]->id, ret);
			VP_STORE(g_abort, 1);
			break;
		}
		struct life *l = life_of_id(v[i]->id);
		if (l)
			__atomic_fetch_add(&l->owners, 1, __ATOMIC_RELAXED);
		retire_push(t, v[i]);
		vp_rcu_qs();
		if (t->nbatch >= 64)
			retire_flush(t, 1);
	}
	retire_flush(t, 1);
	free(v);
}

static void run_round(struct vp_rng *r)
{
	struct thr *mt = &T[MAIN_T];
	gen_rcfg(r, g_round);
	VP_STORE(g_stop_inf, 0);
	memset(g_katt, 0, sizeof(g_katt));
	/* thread table */
	int n = 0;
	for (int role = 0; role < R_NR; role++)
		for (int k = 0; k < g_rc.n_role[role] && n < MAXT - 1; k++) {
			struct thr *t = &T[n];
			struct life *lv = t->lives;
			uint32_t cl = t->caplives;
			memset(t, 0, sizeof(*t));
			t->lives = lv;
			t->caplives = cl;
			t->idx = n;
			t->role = (enum role) role;
			vp_rng_init(&t->rng, vp_opt.seed, 0x11fe + g_round, (uint64_t) n);
			t->batch_lim = 1 + (int) vp_rand_n(&t->rng, 64);
			uint32_t need = 0;
			if (role == R_CONT)
				need = (uint32_t) g_rc.cont_ops + 16;
			else if (role == R_UPD)
				need = UPD_INF ? 400000 : (uint32_t) (g_rc.upd_ops + g_rc.final_burst + 16);
			if (need > t->caplives) {
				free(t->lives);
				t->lives = malloc(sizeof(struct life) * need);
				t->caplives = need;
				if (!t->lives)
					abort();
			}
			n++;
		}
	for (int i = n; i < MAXT - 1; i++)
		T[i].nlives = 0;
	g_nthr = n;
	{
		uint32_t need = (uint32_t) (g_rc.nresgrp * g_rc.nres_keys + 16);
		if (need > mt->caplives) {
			free(mt->lives);
			mt->lives = malloc(sizeof(struct life) * need);
			mt->caplives = need;
		}
		mt->nlives = 0;
		mt->nbatch = 0;
	}
	table_new();
	main_online();
	insert_residents();
	main_offline();

	for (int i = 0; i < n; i++) {
		T[i].started = 1;
		if (pthread_create(&T[i].tid, NULL, thr_main, &T[i])) {
			perror("pthread_create");
			exit(2);
		}
	}
	VP_STORE(mt->in_call, CALL_JOIN);
	for (int i = 0; i < n; i++) {
		int inf = T[i].role == R_RESIDENT || T[i].role == R_WALK || (T[i].role == R_UPD && UPD_INF) || (T[i].role == R_RES && RES_INF);
		if (!inf) {
			pthread_join(T[i].tid, NULL);
			VP_STORE(T[i].started, 0);
		}
	}
	VP_STORE(g_stop_inf, 1);
	for (int i = 0; i < n; i++) {
		int inf = T[i].role == R_RESIDENT || T[i].role == R_WALK || (T[i].role == R_UPD && UPD_INF) || (T[i].role == R_RES && RES_INF);
		if (inf) {
			pthread_join(T[i].tid, NULL);
			VP_STORE(T[i].started, 0);
		}
	}
	VP_STORE(mt->in_call, CALL_NONE);
	for (int i = 0; i < n; i++) {
		struct thr *t = &T[i];
		tot_attempts += t->st_attempts;
		tot_lost += t->st_lost;
		tot_walks += t->st_walks;
		tot_walk_nodes += t->st_walk_nodes;
		tot_validations += t->st_validations;
		tot_match_delays += t->st_match_delays;
		tot_res_lookups += t->st_res_lookups;
		tot_resize_calls += t->st_calls;
		tot_resize_nontrivial += t->st_nontrivial_calls;
		tot_sync += t->st_sync;
		tot_callrcu += t->st_callrcu;
		tot_guard_nodes += t->st_guard_nodes;
	}
	tot_guard_nodes += mt->st_guard_nodes;
	mt->st_guard_nodes = 0;
	if (VP_LOAD(g_abort))
		return;

	if (!g_rc.destroy_pending && (g_rc.flags & CDS_LFHT_AUTO_RESIZE))
		wq_flush();
	main_online();
	if (!g_rc.destroy_pending)
		check_size_bounds(g_ht, ht_size(g_ht), "at quiescence");
	quiescent_checks();
	if (!VP_LOAD(g_abort))
		empty_table();
	main_offline();
	if (VP_LOAD(g_abort))
		return;
	table_destroy();
	tot_rounds++;
}

/* ------------------------------------------------------------------ stuck-state detector */

static int read_proc(int tid, const char *file, char *buf, size_t len)
{
	char p[128];
	snprintf(p, sizeof(p), "/proc/self/task/%d/%s", tid, file);
	int fd = open(p, O_RDONLY);
	if (fd < 0)
		return -1;
	ssize_t n = read(fd, buf, len - 1);
	close(fd);
	if (n < 0)
		n = 0;
	buf[n] = 0;
	return (int) n;
}

/* stuck-state witness: every harness thread prints its own stack (binary+offset, for addr2line) */
static void bt_handler(int sig)
{
	void *pc[24];
	char hdr[96];
	(void) sig;
	int n = backtrace(pc, 24);
	int l = snprintf(hdr, sizeof(hdr), "--- stack of thread idx=%d role=%d in_call=%d\n", me ? me->idx : -1, me ? (int) me->role : -1,
			 me ? me->in_call : -1);
	if (write(2, hdr, (size_t) l) < 0)
		return;
	backtrace_symbols_fd(pc, n, 2);
}

static void dump_thread_stacks(void)
{
	struct sigaction sa;
	memset(&sa, 0, sizeof(sa));
	sa.sa_handler = bt_handler;
	sa.sa_flags = SA_RESTART;
	sigaction(SIGUSR1, &sa, NULL);
	for (int i = 0; i < MAXT; i++)
		if (i == MAIN_T || (i < g_nthr && VP_LOAD(T[i].started))) {
			pthread_t tid = i == MAIN_T ? g_main_tid : T[i].tid;
			if (pthread_kill(tid, SIGUSR1) == 0)
				usleep(20000);
		}
}

static int count_vmas(void)
{
	FILE *f = fopen("/proc/self/maps", "r");
	int n = 0, c;
	if (!f)
		return -1;
	while ((c = fgetc(f)) != EOF)
		if (c == '\n')
			n++;
	fclose(f);
	return n;
}

/*
 * A logical stuck state has every thread that could end it asleep.  Threads of the unbounded roles
 * (resident readers, walkers) legitimately keep running; any OTHER task of the process that is
 * runnable (R) or in an uninterruptible kernel operation (D) in two samples means the process is
 * slow (e.g. mmap_lock contention), not stuck: the verdict is then "inconclusive".
 */
static int busy_tasks(char *who, size_t wlen)
{
	int busy = 0;
	DIR *d = opendir("/proc/self/task");
	struct dirent *de;
	int self = (int) syscall(SYS_gettid);
	if (!d)
		return 0;
	while ((de = readdir(d))) {
		if (de->d_name[0] == '.')
			continue;
		int tid = atoi(de->d_name);
		if (tid == self)
			continue;
		int skip = 0;
		for (int i = 0; i < g_nthr; i++)
			if (VP_LOAD(T[i].ktid) == tid && VP_LOAD(T[i].started) &&
			    (T[i].role == R_RESIDENT || T[i].role == R_WALK))
				skip = 1;
		if (skip)
			continue;
		int hits = 0;
		for (int k = 0; k < 3; k++) {
			char stat[256];
			if (read_proc(tid, "stat", stat, sizeof(stat)) > 0) {
				char *rp = strrchr(stat, ')');
				if (rp && rp[1] && (rp[2] == 'R' || rp[2] == 'D'))
					hits++;
			}
			usleep(50000);
		}
		if (hits >= 2) {
			if (!busy)
				snprintf(who, wlen, "%d", tid);
			busy++;
		}
	}
	closedir(d);
	return busy;
}

static int confirm_stuck(char *buf, size_t len)
{
	dump_thread_stacks();
	if (getenv("LFHT_LIFE_GDB")) {
		/* debugging aid: full stacks of every thread (library threads included) */
		char cmd[200];
		snprintf(cmd, sizeof(cmd), "gdb -p %d -batch -ex 'thread apply all bt 16' 2>&1 | grep -v '^\\[New' 1>&2", (int) getpid());
		if (system(cmd) < 0)
			perror("gdb");
	}
	int call = CALL_NONE, who = -1, resizer = -1;
	for (int i = 0; i < MAXT; i++) {
		int c = VP_LOAD(T[i].in_call);
		if (c == CALL_RESIZE)
			resizer = i;
		if (c != CALL_NONE && (call == CALL_NONE || call == CALL_JOIN || c == CALL_RESIZE)) {
			call = c;
			who = i;
		}
	}
	if (call == CALL_NONE) {
		snprintf(buf, len, "lfht-life:%s:no-progress-but-no-call-in-flight", g_cfgname);
		return 0;
	}
	long works = g_ts ? __atomic_load_n(&g_ts->works_out, __ATOMIC_SEQ_CST) : -1;
	uint64_t launched = VP_LOAD(g_lazy_launched), wloops = VP_LOAD(g_worker_loops);
	char wchan[128] = "?", stat[256] = "?";
	char wstate = '?';
	if (g_worker_tid) {
		read_proc(g_worker_tid, "wchan", wchan, sizeof(wchan));
		if (read_proc(g_worker_tid, "stat", stat, sizeof(stat)) > 0) {
			char *rp = strrchr(stat, ')');
			if (rp && rp[1] && rp[2])
				wstate = rp[2];
		}
	}
	char busy_who[32] = "";
	int nbusy = busy_tasks(busy_who, sizeof(busy_who));
	vp_note("stuck: busy_tasks=%d(first %s) vmas=%d call=%s thread=%d arg=%lu offline_at_call=%d round=%llu {%s} size=%lu target=%lu works_outstanding=%ld "
		"lazy_launched=%llu worker_loop_iterations=%llu worker_tid=%d worker_state=%c worker_wchan=%s",
		nbusy, busy_who, count_vmas(), call_names[call], who, who >= 0 ? T[who].call_arg : 0UL, who >= 0 ? T[who].offline_at_call : 0,
		(unsigned long long) g_round, g_rc.str, g_ht ? ht_size(g_ht) : 0UL, g_ht ? ht_target(g_ht) : 0UL, works,
		(unsigned long long) launched, (unsigned long long) wloops, g_worker_tid, wstate, wchan);
	if (nbusy) {
		snprintf(buf, len, "lfht-life:%s:no-progress-for-stall-period-but-%d-task(s)-still-running-(%s-in-flight)", g_cfgname, nbusy,
			 call_names[call]);
		return 0;
	}
#if VP_IS_QSBR
	/*
	 * qsbr: an OFFLINE application thread is inside cds_lfht_resize() (it holds resize_mutex: it
	 * passed the top of the resize loop in this call), lazy resize work is outstanding and the
	 * worker thread sleeps: the worker is blocked on resize_mutex while online, the caller's
	 * synchronize_rcu() in fini_table waits for it forever.
	 */
	if (resizer >= 0 && T[resizer].offline_at_call && (g_rc.flags & CDS_LFHT_AUTO_RESIZE) &&
	    (works > 0 || (works < 0 && launched > 0)) && (wstate == 'S' || wstate == '?')) {
		snprintf(buf, len, "hang:lfht:qsbr:worker-online-on-resize_mutex");
		return 1;
	}
#endif
	snprintf(buf, len, "hang:lfht:%s:%s-never-returned", VP_FLAVOR_NAME, call_names[call]);
	/* threads' read-side sections are bounded (delays <= a few ms): no progress of any thread or
	 * hook for the whole stall period with a call in flight is a logical stuck state */
	return call != CALL_JOIN;
}

/* ------------------------------------------------------------------ main */

int main(int argc, char **argv)
{
	vp_init(argc, argv, "lfht_life_" VP_FLAVOR_NAME);
	g_cfgname = vp_arg("cfg", VP_FLAVOR_NAME);
	const char *mode = vp_arg("mode", "own");
	g_mode = !strcmp(mode, "own") ? MODE_OWN : !strcmp(mode, "resize") ? MODE_RESIZE :
		 !strcmp(mode, "destroy") ? MODE_DESTROY : MODE_BIG;
	g_prop = !strcmp(vp_arg("prop", g_mode == MODE_OWN ? "C07" : "C09"), "C07") ? 7 : 9;
	opt_rounds = vp_arg_long("rounds", 10);
	opt_cont = vp_arg_long("cont", 4);
	opt_upd = vp_arg_long("upd", 1);
	opt_resident = vp_arg_long("resident", 1);
	opt_walk = vp_arg_long("walk", 1);
	opt_res = vp_arg_long("res", 1);
	opt_cont_ops = vp_arg_long("cont-ops", 20000);
	opt_upd_ops = vp_arg_long("upd-ops", 20000);
	opt_res_calls = vp_arg_long("res-calls", 40);
	opt_mm = vp_arg_long("mm", -1);
	opt_ak = vp_arg_long("alloc", -1);
	opt_flags = vp_arg_long("flags", -1);
	opt_max_order = vp_arg_long("max-order", -1);
	opt_pop_hi = vp_arg_long("pop-hi", 600);
	opt_sig = vp_arg_long("sig", 0);
	opt_stall_ms = vp_arg_long("stall-ms", 30000);
	opt_qsbr_offline = (int) vp_arg_long("qsbr-offline", 1);
	opt_guard_frac = vp_arg_double("guard-frac", 0.06);
	opt_walk_delay_ppm = (long) (vp_arg_double("walk-delay", 0.004) * (1 << 20));
	opt_match_delay_ppm = (long) (vp_arg_double("match-delay", 0.001) * (1 << 20));
	opt_hook_prob = vp_arg_double("hook-prob", 0.002);
	vp_tun_count_commit_order = (unsigned) vp_arg_long("tun-commit-order", 10);
	vp_tun_min_part_order = (unsigned) vp_arg_long("tun-part-order", 12);

	ga_init();
	ga_install_crash_handler();
	vp_quar_init(&g_quar, 1 << 16, quar_release);
	vp_user_hook = life_hook;
	if (opt_hook_prob > 0) {
		double p = opt_hook_prob, pr = p * 100 > 0.5 ? 0.5 : p * 100;
		vp_point_set(URCU_VP_HT_DEL_FLAGGED, p * 4, VP_D_HEAVY);
		vp_point_set(URCU_VP_HT_DEL_BEFORE_OWNER, p * 4, VP_D_HEAVY);
		vp_point_set(URCU_VP_HT_GC_BEFORE_UNLINK, p * 2, VP_D_HEAVY);
		vp_point_set(URCU_VP_HT_REPLACE_BEFORE_CMPXCHG, p * 4, VP_D_HEAVY);
		vp_point_set(URCU_VP_HT_ADD_BEFORE_CMPXCHG, p, VP_D_HEAVY);
		vp_point_set(URCU_VP_HT_SHRINK_BEFORE_GP, pr, VP_D_HEAVY);
		vp_point_set(URCU_VP_HT_SHRINK_BEFORE_REMOVE, pr, VP_D_HEAVY);
		vp_point_set(URCU_VP_HT_SHRINK_BEFORE_FREE, pr, VP_D_HEAVY);
		vp_point_set(URCU_VP_HT_GROW_BEFORE_PUBLISH, pr, VP_D_HEAVY);
		vp_point_set(URCU_VP_WQ_PRE_SLEEP, pr, VP_D_HEAVY);
	}
	struct thr *mt = &T[MAIN_T];
	mt->idx = MAIN_T;
	mt->vt = vp_self();
	mt->batch_lim = 64;
	vp_rng_init(&mt->rng, vp_opt.seed, 0x3a19, 0);
	me = mt;
	g_main_tid = pthread_self();
	vp_pin(MAXT);
	rcu_register_thread();
	vp_rcu_offline();
	if (opt_sig)
		vp_chaos_start(MAXT + 1, (uint32_t) vp_arg_long("sig-period-us", 150), NULL);
	vp_watchdog_start((uint64_t) opt_stall_ms, confirm_stuck);

	struct vp_rng rr;
	vp_rng_init(&rr, vp_opt.seed, 0x7ab1e, (uint64_t) g_mode);
	uint64_t first = (uint64_t) vp_arg_long("first-round", 0);
	for (g_round = first; g_round < first + (uint64_t) opt_rounds && !VP_LOAD(g_abort); g_round++) {
		struct vp_rng r1;
		vp_rng_init(&r1, vp_opt.seed, 0x7ab1e + (uint64_t) g_mode, g_round);
		(void) rr;
		run_round(&r1);
	}
	VP_STORE(mt->in_call, CALL_SYNC);
	rcu_barrier();
	VP_STORE(mt->in_call, CALL_NONE);
	vp_chaos_stop();
	vp_watchdog_stop();
#if !(VP_ASAN || VP_TSAN)
	vp_quar_drain(&g_quar);
#endif
	vp_rcu_online();
	rcu_unregister_thread();

	uint64_t evals, nontriv;
	if (g_prop == 7) {
		evals = tot_lives_removed;
		nontriv = tot_contended;
	} else {
		evals = tot_resize_calls + tot_lazy_evals;
		nontriv = tot_resize_nontrivial + tot_lazy_nontrivial;
	}
	vp_counter_add("evaluations", evals);
	vp_counter_add("nontrivial", nontriv);
	vp_counter_add("rounds", tot_rounds);
	vp_counter_add("tables", tot_tables);
	vp_counter_add("node_lives", tot_lives);
	vp_counter_add("node_lives_removed", tot_lives_removed);
	vp_counter_add("node_lives_contended", tot_contended);
	vp_counter_add("removal_attempts", tot_attempts);
	vp_counter_add("removal_attempts_lost", tot_lost);
	vp_counter_add("nodes_reclaimed", tot_reclaimed);
	vp_counter_add("nodes_on_guard_pages", tot_guard_nodes);
	vp_counter_add("retire_synchronize_rcu", tot_sync);
	vp_counter_add("retire_call_rcu", tot_callrcu);
	vp_counter_add("nodes_present_at_quiescence", tot_quiescent_present);
	vp_counter_add("explicit_resize_calls", tot_resize_calls);
	vp_counter_add("explicit_resize_nontrivial", tot_resize_nontrivial);
	vp_counter_add("lazy_resizes", tot_lazy_evals);
	vp_counter_add("lazy_resizes_nontrivial", tot_lazy_nontrivial);
	vp_counter_add("partitioned_resizes", tot_partitioned_calls);
	vp_counter_add("resize_steps", g_resize_steps);
	vp_counter_add("max_loop_iterations_in_one_call", tot_max_loop_iters);
	vp_counter_add("exclusive_size_checks", tot_seq_size_checks);
	vp_counter_add("resident_lookups", tot_res_lookups);
	vp_counter_add("walks", tot_walks);
	vp_counter_add("walk_nodes", tot_walk_nodes);
	vp_counter_add("held_node_validations", tot_validations);
	vp_counter_add("delays_inside_library_traversal", tot_match_delays);
	vp_counter_add("destroy_calls", tot_destroy);
	vp_counter_add("destroy_with_resize_work_outstanding", tot_destroy_pending_work);
	vp_counter_add("destroy_while_worker_resizing", tot_destroy_resize_running);
	vp_counter_add("workqueue_flushes", tot_flushes);
	vp_counter_add("bucket_array_allocs", tot_bucket_allocs);
	vp_counter_add("bucket_array_frees", tot_bucket_frees);
	vp_counter_add("allocator_events", tot_alloc_events);
	vp_counter_add("allocations_not_returned", tot_leaks);
	vp_counter_add("guard_allocations", ga_n);
	vp_counter_add("guard_fallbacks", ga_fallbacks);
	vp_counter_add("vmas_at_end", (uint64_t) count_vmas());
	return vp_finish();
}
