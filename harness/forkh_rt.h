/*
 * forkh_rt.h - private runtime of harness/forkh.c (C16): per-process report
 * buffer relayed to the parent through a pipe, shared progress page, /proc
 * inspection of a child, child wait loop with stuck-state confirmation.
 */
#ifndef FORKH_RT_H
#define FORKH_RT_H

#include <sys/mman.h>
#include <sys/wait.h>
#include <sys/prctl.h>
#include <sys/syscall.h>
#include <poll.h>
#include <dirent.h>
#include <fcntl.h>

/* one page MAP_SHARED between a process and the process that forked it */
struct shp {
	uint64_t progress;
	char phase[56];
};

static struct shp g_root_shp;
static struct {
	int depth;		/* 0 = the harness process itself */
	int report_fd;		/* pipe to our parent (depth > 0) */
	struct shp *shp;	/* progress page our parent watches */
	char *rep;		/* report text (depth > 0) */
	size_t rep_len, rep_cap;
	int nviol;
	uint64_t stall_ns;
} G = { .report_fd = -1, .shp = &g_root_shp };

static pid_t g_forker_tid;
static int g_trace;

static inline void bump(void)
{
	__atomic_fetch_add(&G.shp->progress, 1, __ATOMIC_RELAXED);
	if (!G.depth) {
		struct vp_thr *t = vp_self();
		VP_STORE(t->progress, t->progress + 1);
	}
}

static void phase(const char *p)
{
	char tmp[56];
	snprintf(tmp, sizeof(tmp), "%s", p);
	memcpy(G.shp->phase, tmp, sizeof(tmp));
	if (g_trace)
		fprintf(stderr, "T %.3f d%d pid %d %s\n", vp_now_ns() / 1e9, G.depth, (int) getpid(), tmp);
	bump();
}

static void rep_append(const char *s, size_t n)
{
	if (G.rep_len + n + 1 > G.rep_cap) {
		size_t nc = G.rep_cap ? G.rep_cap * 2 : 4096;
		while (nc < G.rep_len + n + 1)
			nc *= 2;
		G.rep = realloc(G.rep, nc);
		if (!G.rep)
			_exit(2);
		G.rep_cap = nc;
	}
	memcpy(G.rep + G.rep_len, s, n);
	G.rep_len += n;
	G.rep[G.rep_len] = 0;
}

static void sanitize(char *s)
{
	for (; *s; s++)
		if (*s == '\t' || *s == '\n' || *s == '\r')
			*s = ' ';
}

static void rep_line(char tag, const char *a, const char *b)
{
	char line[1400];
	int n;
	if (b)
		n = snprintf(line, sizeof(line), "%c\t%s\t%s\n", tag, a, b);
	else
		n = snprintf(line, sizeof(line), "%c\t%s\n", tag, a);
	if (n >= (int) sizeof(line)) {
		n = sizeof(line) - 1;
		line[n - 1] = '\n';
	}
	rep_append(line, (size_t) n);
}

static void R_viol(const char *key, const char *fmt, ...) __attribute__((format(printf, 2, 3)));
static void R_viol(const char *key, const char *fmt, ...)
{
	char msg[900];
	va_list ap;
	va_start(ap, fmt);
	vsnprintf(msg, sizeof(msg), fmt, ap);
	va_end(ap);
	G.nviol++;
	if (!G.depth) {
		vp_violation(key, "%s", msg);
		return;
	}
	sanitize(msg);
	fprintf(stderr, "forkh[d%d pid %d] violation key=%s %s\n", G.depth, (int) getpid(), key, msg);
	rep_line('V', key, msg);
}

static void R_inconcl(const char *fmt, ...) __attribute__((format(printf, 1, 2)));
static void R_inconcl(const char *fmt, ...)
{
	char msg[400];
	va_list ap;
	va_start(ap, fmt);
	vsnprintf(msg, sizeof(msg), fmt, ap);
	va_end(ap);
	if (!G.depth) {
		vp_inconclusive(msg);
		return;
	}
	sanitize(msg);
	rep_line('I', msg, NULL);
}

static void R_sig(const char *fmt, ...) __attribute__((format(printf, 1, 2)));
static void R_sig(const char *fmt, ...)
{
	char msg[256];
	va_list ap;
	va_start(ap, fmt);
	vsnprintf(msg, sizeof(msg), fmt, ap);
	va_end(ap);
	if (!G.depth) {
		vp_sig_add("%s", msg);
		return;
	}
	sanitize(msg);
	rep_line('S', msg, NULL);
}

static void R_sample(const char *fmt, ...) __attribute__((format(printf, 1, 2)));
static void R_sample(const char *fmt, ...)
{
	char msg[900];
	va_list ap;
	va_start(ap, fmt);
	vsnprintf(msg, sizeof(msg), fmt, ap);
	va_end(ap);
	if (!G.depth) {
		vp_sample_add("%s", msg);
		return;
	}
	sanitize(msg);
	rep_line('A', msg, NULL);
}

static void R_count(const char *name, uint64_t v)
{
	char num[32];
	if (!v)
		return;
	if (!G.depth) {
		vp_counter_add(name, v);
		return;
	}
	snprintf(num, sizeof(num), "%llu", (unsigned long long) v);
	rep_line('C', name, num);
}

/* ------------------------------------------------------------------ /proc inspection */

static int read_small(const char *path, char *buf, size_t len)
{
	int fd = open(path, O_RDONLY);
	if (fd < 0)
		return -1;
	ssize_t n = read(fd, buf, len - 1);
	close(fd);
	if (n < 0)
		return -1;
	buf[n] = 0;
	while (n > 0 && buf[n - 1] == '\n')
		buf[--n] = 0;
	return (int) n;
}

static char task_state(pid_t pid, pid_t tid)
{
	char p[96], buf[512];
	snprintf(p, sizeof(p), "/proc/%d/task/%d/stat", (int) pid, (int) tid);
	if (read_small(p, buf, sizeof(buf)) <= 0)
		return '?';
	char *rp = strrchr(buf, ')');
	return (rp && rp[1] && rp[2]) ? rp[2] : '?';
}

/* 1 if the thread is observed blocked in the kernel (S/D) */
static int thread_sleeping(pid_t pid, pid_t tid)
{
	for (int i = 0; i < 40; i++) {
		char c = task_state(pid, tid);
		if (c == 'S' || c == 'D')
			return 1;
		if (c == '?' || c == 'Z' || c == 'X')
			return 0;
		usleep(250);
	}
	return 0;
}

static void dump_tasks(pid_t pid, char *out, size_t len)
{
	char p[128], buf[256];
	size_t o = 0;
	snprintf(p, sizeof(p), "/proc/%d/task", (int) pid);
	DIR *d = opendir(p);
	struct dirent *de;
	out[0] = 0;
	if (!d)
		return;
	while ((de = readdir(d)) && o + 200 < len) {
		if (de->d_name[0] == '.')
			continue;
		int tid = atoi(de->d_name);
		o += (size_t) snprintf(out + o, len - o, "  task %d state=%c", tid, task_state(pid, tid));
		snprintf(p, sizeof(p), "/proc/%d/task/%d/wchan", (int) pid, tid);
		if (read_small(p, buf, sizeof(buf)) > 0 && o + 100 < len)
			o += (size_t) snprintf(out + o, len - o, " wchan=[%.60s]", buf);
		snprintf(p, sizeof(p), "/proc/%d/task/%d/syscall", (int) pid, tid);
		if (read_small(p, buf, sizeof(buf)) > 0 && o + 120 < len)
			o += (size_t) snprintf(out + o, len - o, " syscall=[%.80s]", buf);
		if (o + 2 < len)
			o += (size_t) snprintf(out + o, len - o, "\n");
	}
	closedir(d);
}

/* number of tasks in uninterruptible sleep: a system call that does not return (seen
 * here: sys_membarrier waiting in the kernel for many seconds under machine-wide load)
 * is not a logical stuck state of the library */
static int count_tasks_state(pid_t pid, char st)
{
	char p[64];
	int n = 0;
	snprintf(p, sizeof(p), "/proc/%d/task", (int) pid);
	DIR *d = opendir(p);
	struct dirent *de;
	if (!d)
		return 0;
	while ((de = readdir(d)))
		if (de->d_name[0] != '.' && task_state(pid, atoi(de->d_name)) == st)
			n++;
	closedir(d);
	return n;
}

static int count_tasks(pid_t pid)
{
	char p[64];
	int n = 0;
	snprintf(p, sizeof(p), "/proc/%d/task", (int) pid);
	DIR *d = opendir(p);
	struct dirent *de;
	if (!d)
		return -1;
	while ((de = readdir(d)))
		if (de->d_name[0] != '.')
			n++;
	closedir(d);
	return n;
}

/* run-queue wait time per task (schedstat field 2): a thread that is runnable but not
 * given a CPU accumulates it.  Used to tell "nothing will ever make progress" from
 * "something is starved of CPU". */
struct rq_snap {
	int n;
	int tid[160];
	uint64_t wait[160], run[160];
	uint64_t t_ns;
};

/* tasks of the calling process that are harness application threads (spinning bp
 * readers legitimately queue for a CPU) are left out */
static int (*rq_exclude)(int tid);

static void rq_snapshot(pid_t pid, struct rq_snap *s)
{
	char p[128], buf[128];
	s->n = 0;
	s->t_ns = vp_now_ns();
	snprintf(p, sizeof(p), "/proc/%d/task", (int) pid);
	DIR *d = opendir(p);
	struct dirent *de;
	if (!d)
		return;
	while ((de = readdir(d)) && s->n < 160) {
		if (de->d_name[0] == '.')
			continue;
		int tid = atoi(de->d_name);
		unsigned long long run = 0, wait = 0;
		if (pid == getpid() && rq_exclude && rq_exclude(tid))
			continue;
		snprintf(p, sizeof(p), "/proc/%d/task/%d/schedstat", (int) pid, tid);
		if (read_small(p, buf, sizeof(buf)) <= 0 || sscanf(buf, "%llu %llu", &run, &wait) != 2)
			continue;
		s->tid[s->n] = tid;
		s->wait[s->n] = wait;
		s->run[s->n] = run;
		s->n++;
	}
	closedir(d);
}

/* largest fraction (per mille) of the elapsed time that a task spent waiting for a CPU
 * while running less than half of that (a spinner that shares its CPU fairly with
 * another spinner is not starved) */
static int rq_starved_permille(pid_t pid, const struct rq_snap *before)
{
	struct rq_snap now;
	rq_snapshot(pid, &now);
	uint64_t el = now.t_ns - before->t_ns, maxw = 0;
	if (!el || !before->n)
		return 0;
	for (int i = 0; i < now.n; i++) {
		uint64_t w0 = 0, r0 = 0;
		for (int k = 0; k < before->n; k++)
			if (before->tid[k] == now.tid[i]) {
				w0 = before->wait[k];
				r0 = before->run[k];
				break;
			}
		uint64_t dw = now.wait[i] - w0, dr = now.run[i] - r0;
		if (dw > el)
			dw = el;	/* task created in between */
		if (dr >= dw / 2)
			continue;
		if (dw > maxw)
			maxw = dw;
	}
	return (int) (maxw * 1000 / el);
}

/* ------------------------------------------------------------------ child side */

/* called first thing in a freshly forked child */
static void child_enter(int wfd, int rfd_to_close, struct shp *page)
{
	prctl(PR_SET_PDEATHSIG, SIGKILL);
	if (G.report_fd >= 0)
		close(G.report_fd);	/* our parent's pipe to *its* parent */
	close(rfd_to_close);
	G.report_fd = wfd;
	G.depth++;
	G.shp = page;
	G.rep_len = 0;
	if (G.rep)
		G.rep[0] = 0;
	G.nviol = 0;
	g_forker_tid = (pid_t) syscall(SYS_gettid);
}

static void child_exit(void) __attribute__((noreturn));
static void child_exit(void)
{
	char done[32];
	snprintf(done, sizeof(done), "%d", G.depth);
	rep_line('D', done, NULL);
	phase("report");
	size_t off = 0;
	while (off < G.rep_len) {
		ssize_t n = write(G.report_fd, G.rep + off, G.rep_len - off);
		if (n < 0) {
			if (errno == EINTR)
				continue;
			break;
		}
		off += (size_t) n;
	}
	close(G.report_fd);
	_exit(0);
}

/* ------------------------------------------------------------------ parent side */

struct child_result {
	int reported_done;
	int hung;		/* 1 confirmed, 2 inconclusive */
	int died;
	int child_viol;
};

static void parse_report(char *txt, struct child_result *cr)
{
	char *save = NULL;
	for (char *line = strtok_r(txt, "\n", &save); line; line = strtok_r(NULL, "\n", &save)) {
		if (!line[0] || line[1] != '\t')
			continue;
		char *a = line + 2;
		char *b = strchr(a, '\t');
		if (b)
			*b++ = 0;
		switch (line[0]) {
		case 'V':
			cr->child_viol++;
			R_viol(a, "%s", b ? b : "");
			break;
		case 'I':
			R_inconcl("%s", a);
			break;
		case 'S':
			R_sig("%s", a);
			break;
		case 'A':
			R_sample("%s", a);
			break;
		case 'C':
			if (b)
				R_count(a, strtoull(b, NULL, 10));
			break;
		case 'D':
			cr->reported_done = 1;
			break;
		default:
			break;
		}
	}
}

/*
 * Reads the child's report until EOF while watching its progress page.  A child
 * whose progress counter and phase do not move across three samples spanning
 * G.stall_ns, and whose only original thread (tid == pid) is observed blocked in
 * the kernel at each of them, is a confirmed stuck state.
 */
static void wait_child(pid_t pid, int rfd, struct shp *cs, const char *desc, struct child_result *cr)
{
	char *in = NULL;
	size_t in_len = 0, in_cap = 0;
	uint64_t last = __atomic_load_n(&cs->progress, __ATOMIC_RELAXED), t_last = vp_now_ns();
	int nsamp = 0, sleeping = 0, eof = 0, dstate = 0;
	char *wit = calloc(1, 3 * 4096 + 64);
	size_t wit_len = 0;
	struct rq_snap rq0;
	rq0.n = 0;

	memset(cr, 0, sizeof(*cr));
	while (!eof) {
		struct pollfd pf = { .fd = rfd, .events = POLLIN };
		int pr = poll(&pf, 1, 50);
		if (pr > 0) {
			char buf[4096];
			ssize_t n = read(rfd, buf, sizeof(buf));
			if (n > 0) {
				if (in_len + (size_t) n + 1 > in_cap) {
					in_cap = in_cap ? in_cap * 2 : 16384;
					while (in_cap < in_len + (size_t) n + 1)
						in_cap *= 2;
					in = realloc(in, in_cap);
				}
				memcpy(in + in_len, buf, (size_t) n);
				in_len += (size_t) n;
				in[in_len] = 0;
			} else if (n == 0 || errno != EINTR)
				eof = 1;
		}
		uint64_t p = __atomic_load_n(&cs->progress, __ATOMIC_RELAXED), now = vp_now_ns();
		if (p != last) {
			last = p;
			t_last = now;
			nsamp = 0;
			sleeping = 0;
			dstate = 0;
			wit_len = 0;
			bump();
			continue;
		}
		if (!eof && now - t_last >= (uint64_t) (nsamp + 1) * (G.stall_ns / 3)) {
			if (!nsamp)
				rq_snapshot(pid, &rq0);
			sleeping += thread_sleeping(pid, pid);
			dstate += count_tasks_state(pid, 'D');
			wit_len += (size_t) snprintf(wit + wit_len, 64, " sample %d at +%llu ms:\n", nsamp,
						     (unsigned long long) ((now - t_last) / 1000000));
			dump_tasks(pid, wit + wit_len, 4000);
			wit_len += strlen(wit + wit_len);
			nsamp++;
			bump();		/* our own observer must not fire before we decided */
			if (nsamp == 3) {
				char ph[56], key[120], path[512] = "";
				memcpy(ph, cs->phase, sizeof(ph));
				ph[sizeof(ph) - 1] = 0;
				FILE *w = vp_witness_open("fork-child-stuck", path, sizeof(path));
				if (w) {
					fprintf(w, "%s\nchild pid %d phase=%s progress=%llu unchanged for %llu ms\n%s", desc,
						(int) pid, ph, (unsigned long long) p,
						(unsigned long long) ((now - t_last) / 1000000), wit);
					fclose(w);
				}
				int starved = rq_starved_permille(pid, &rq0);
				if (sleeping == 3 && starved < 250 && !dstate) {
					/* phase is "<role>:<step>"; role child = the script right after the fork,
					 * as-parent / parent = that process preparing / following a nested fork */
					if (!strncmp(ph, "child:", 6))
						snprintf(key, sizeof(key), "hang:fork:child:%s", ph + 6);
					else
						snprintf(key, sizeof(key), "hang:fork:child-process:%s", ph);
					R_viol(key, "%s: child pid %d made no progress for %llu ms in phase '%s' and its thread was blocked in the kernel at all 3 samples; witness=%s",
					       desc, (int) pid, (unsigned long long) ((now - t_last) / 1000000), ph, path);
					cr->hung = 1;
				} else {
					R_inconcl("fork child no progress in phase %s but not a confirmed stuck state (thread blocked at %d/3 samples, CPU starvation %d per mille, %d tasks in uninterruptible sleep): %s",
						  ph, sleeping, starved, dstate, desc);
					cr->hung = 2;
				}
				kill(pid, SIGKILL);
				break;
			}
		}
	}
	close(rfd);
	int status = 0, reaped = 0;
	for (int i = 0; i < 4000; i++) {
		pid_t r = waitpid(pid, &status, WNOHANG);
		if (r == pid) {
			reaped = 1;
			break;
		}
		if (r < 0 && errno != EINTR)
			break;
		usleep(5000);
		if ((i & 63) == 63)
			bump();
	}
	if (!reaped) {
		kill(pid, SIGKILL);
		while (waitpid(pid, &status, 0) < 0 && errno == EINTR)
			;
	}
	if (in)
		parse_report(in, cr);
	if (!cr->hung) {
		char ph[56];
		memcpy(ph, cs->phase, sizeof(ph));
		ph[sizeof(ph) - 1] = 0;
		if (WIFSIGNALED(status)) {
			char key[120];
			snprintf(key, sizeof(key), "c16:child:died:signal%d:%s", WTERMSIG(status), ph);
			R_viol(key, "%s: child pid %d killed by signal %d in phase '%s' (see stderr)", desc, (int) pid,
			       WTERMSIG(status), ph);
			cr->died = 1;
		} else if (WIFEXITED(status) && WEXITSTATUS(status) != 0) {
			char key[120];
			snprintf(key, sizeof(key), "c16:child:died:exit%d:%s", WEXITSTATUS(status), ph);
			R_viol(key, "%s: child pid %d exited with status %d in phase '%s' (66/67 = sanitizer report, see stderr)",
			       desc, (int) pid, WEXITSTATUS(status), ph);
			cr->died = 1;
		} else if (!cr->reported_done) {
			R_viol("c16:child:no-completion-record", "%s: child pid %d exited 0 without completing its script (phase '%s')",
			       desc, (int) pid, ph);
		}
	}
	free(in);
	free(wit);
}

#endif
