/*
 * stack_api.h - C11: one calling convention over cds_wfs (wfstack), cds_lfs (lfstack) and the
 * legacy cds_lfs_*_rcu (rculfstack), for the three documented synchronisation schemes:
 *   S_MUTEX   pop / pop_all callers exclude each other with the stack's pop mutex, either the
 *             `cds_*_blocking` functions (lock taken internally) or explicit
 *             cds_*_pop_lock() + __cds_* + cds_*_pop_unlock();
 *   S_SINGLE  only ONE thread ever calls __cds_*_pop* / __cds_*_pop_all (no lock, `__` stack type);
 *   S_RCU     __cds_*_pop* / cds_lfs_pop_rcu run inside rcu_read_lock()/rcu_read_unlock(); nodes are
 *             not modified / pushed again / freed before a grace period has elapsed.
 * Compiles with _LGPL_SOURCE (static inlines) and without (-DVP_NO_LGPL: exported wrappers of
 * src/wfstack.c, src/lfstack.c, src/rculfstack.c).
 * Time stamps are taken INSIDE the lock / read-side section, right around the library call.
 */
#ifndef STACK_API_H
#define STACK_API_H

#include "vp.h"
#include "vp_flavor.h"
#define CDS_LFS_RCU_DEPRECATED
#include <urcu/wfstack.h>
#include <urcu/lfstack.h>
#include <urcu/rculfstack.h>

enum { K_WFS, K_LFS, K_LFSRCU, K_NR };
static const char *const kind_name[K_NR] = { "wfs", "lfs", "lfs_rcu" };
enum { S_MUTEX, S_SINGLE, S_RCU, S_NR };
static const char *const scheme_name[S_NR] = { "mutex", "single-consumer", "rcu" };

/* node states of the ownership state machine (long / ABA runs) */
#define NS_OWNED   0x4f574e44u
#define NS_INSTACK 0x494e5354u

struct snode {
	union {
		struct cds_wfs_node w;
		struct cds_lfs_node l;
		struct cds_lfs_node_rcu r;
		void *next;
	} u;			/* offset 0: node pointer == snode pointer */
	uint64_t id;		/* pusher << 32 | counter; PLAIN store before the push, PLAIN load after the pop */
	uint32_t state;
	uint32_t epoch;		/* episode number (episodes mode) */
	uint16_t eidx;		/* episode-local index 1.. (episodes mode) */
	uint16_t home;
	uint32_t pad;
};

#define SN_WOULDBLOCK ((struct snode *) -1UL)

enum { PV_BLOCKING, PV_NONBLOCKING, PV_STATE_BLOCKING, PV_STATE_NONBLOCKING, PV_NR };
enum { IT_EACH, IT_SAFE, IT_NONBLOCKING, IT_NR };

static struct cds_wfs_stack wfs_l;
static struct __cds_wfs_stack wfs_n;
static struct cds_lfs_stack lfs_l;
static struct __cds_lfs_stack lfs_n;
static struct cds_lfs_stack_rcu lfsr;
static int cur_kind, cur_scheme;	/* changed only while every worker waits at a barrier */
static int stacks_inited;

static inline cds_wfs_stack_ptr_t wfs_p(void)
{
	cds_wfs_stack_ptr_t p;
	if (cur_scheme == S_MUTEX)
		p.s = &wfs_l;
	else
		p._s = &wfs_n;
	return p;
}
static inline cds_wfs_stack_const_ptr_t wfs_cp(void)
{
	cds_wfs_stack_const_ptr_t p;
	if (cur_scheme == S_MUTEX)
		p.s = &wfs_l;
	else
		p._s = &wfs_n;
	return p;
}
static inline cds_lfs_stack_ptr_t lfs_p(void)
{
	cds_lfs_stack_ptr_t p;
	if (cur_scheme == S_MUTEX)
		p.s = &lfs_l;
	else
		p._s = &lfs_n;
	return p;
}
static inline cds_lfs_stack_const_ptr_t lfs_cp(void)
{
	cds_lfs_stack_const_ptr_t p;
	if (cur_scheme == S_MUTEX)
		p.s = &lfs_l;
	else
		p._s = &lfs_n;
	return p;
}

static void stacks_init(void)
{
	if (stacks_inited) {
		cds_wfs_destroy(&wfs_l);
		cds_lfs_destroy(&lfs_l);
	}
	cds_wfs_init(&wfs_l);
	__cds_wfs_init(&wfs_n);
	cds_lfs_init(&lfs_l);
	__cds_lfs_init(&lfs_n);
	cds_lfs_init_rcu(&lfsr);
	stacks_inited = 1;
}

/* what the application has to do to a node before it may push it */
static inline void node_prepare(struct snode *n)
{
	switch (cur_kind) {
	case K_WFS:
		cds_wfs_node_init(&n->u.w);	/* next = NULL: required (and asserted) by cds_wfs_push */
		break;
	case K_LFS:
		n->u.next = VP_POISON_PTR;	/* content before the push is irrelevant: push sets next */
		cds_lfs_node_init(&n->u.l);
		break;
	default:
		n->u.next = VP_POISON_PTR;
		cds_lfs_node_init_rcu(&n->u.r);
		break;
	}
}

/* returns "stack was non-empty" */
static inline int stack_push(struct snode *n, uint64_t *tc, uint64_t *tr)
{
	int r;
	switch (cur_kind) {
	case K_WFS:
		*tc = ts_before();
		r = cds_wfs_push(wfs_p(), &n->u.w);
		*tr = ts_after();
		break;
	case K_LFS:
		*tc = ts_before();
		r = cds_lfs_push(lfs_p(), &n->u.l);
		*tr = ts_after();
		break;
	default:
		*tc = ts_before();
		r = cds_lfs_push_rcu(&lfsr, &n->u.r);
		*tr = ts_after();
		break;
	}
	return !!r;
}

/* *state: -1 when the variant reports no state */
static inline struct snode *stack_pop(int pv, int internal_lock, int *state, uint64_t *tc, uint64_t *tr)
{
	void *n = NULL;
	int st = 0;

	switch (cur_kind) {
	case K_WFS:
		if (cur_scheme == S_MUTEX && internal_lock && (pv == PV_BLOCKING || pv == PV_STATE_BLOCKING)) {
			*tc = ts_before();
			if (pv == PV_STATE_BLOCKING)
				n = cds_wfs_pop_with_state_blocking(&wfs_l, &st);
			else
				n = cds_wfs_pop_blocking(&wfs_l);
			*tr = ts_after();
		} else {
			cds_wfs_stack_ptr_t p = wfs_p();
			if (cur_scheme == S_MUTEX)
				cds_wfs_pop_lock(&wfs_l);
			else if (cur_scheme == S_RCU)
				rcu_read_lock();
			*tc = ts_before();
			switch (pv) {
			case PV_BLOCKING:
				n = __cds_wfs_pop_blocking(p);
				break;
			case PV_NONBLOCKING:
				n = __cds_wfs_pop_nonblocking(p);
				break;
			case PV_STATE_BLOCKING:
				n = __cds_wfs_pop_with_state_blocking(p, &st);
				break;
			default:
				n = __cds_wfs_pop_with_state_nonblocking(p, &st);
				break;
			}
			*tr = ts_after();
			if (cur_scheme == S_MUTEX)
				cds_wfs_pop_unlock(&wfs_l);
			else if (cur_scheme == S_RCU)
				rcu_read_unlock();
		}
		*state = (pv == PV_STATE_BLOCKING || pv == PV_STATE_NONBLOCKING) ? st : -1;
		break;
	case K_LFS:
		if (cur_scheme == S_MUTEX && internal_lock) {
			*tc = ts_before();
			n = cds_lfs_pop_blocking(&lfs_l);
			*tr = ts_after();
		} else {
			if (cur_scheme == S_MUTEX)
				cds_lfs_pop_lock(&lfs_l);
			else if (cur_scheme == S_RCU)
				rcu_read_lock();
			*tc = ts_before();
			n = __cds_lfs_pop(lfs_p());
			*tr = ts_after();
			if (cur_scheme == S_MUTEX)
				cds_lfs_pop_unlock(&lfs_l);
			else if (cur_scheme == S_RCU)
				rcu_read_unlock();
		}
		*state = -1;
		break;
	default:
		/* "Should be called under rcu read lock critical section", whatever the scheme */
		rcu_read_lock();
		*tc = ts_before();
		n = cds_lfs_pop_rcu(&lfsr);
		*tr = ts_after();
		rcu_read_unlock();
		*state = -1;
		break;
	}
	return n;
}

/* returns the head of the popped chain (NULL = stack was empty); wfs / lfs only.
 * "No RCU read-side critical section is needed around __cds_*_pop_all": in_section selects both. */
static inline void *stack_pop_all(int internal_lock, int in_section, uint64_t *tc, uint64_t *tr)
{
	void *h;

	if (cur_kind == K_WFS) {
		if (cur_scheme == S_MUTEX && internal_lock) {
			*tc = ts_before();
			h = cds_wfs_pop_all_blocking(&wfs_l);
			*tr = ts_after();
			return h;
		}
		if (cur_scheme == S_MUTEX)
			cds_wfs_pop_lock(&wfs_l);
		else if (cur_scheme == S_RCU && in_section)
			rcu_read_lock();
		*tc = ts_before();
		h = __cds_wfs_pop_all(wfs_p());
		*tr = ts_after();
		if (cur_scheme == S_MUTEX)
			cds_wfs_pop_unlock(&wfs_l);
		else if (cur_scheme == S_RCU && in_section)
			rcu_read_unlock();
		return h;
	}
	if (cur_scheme == S_MUTEX && internal_lock) {
		*tc = ts_before();
		h = cds_lfs_pop_all_blocking(&lfs_l);
		*tr = ts_after();
		return h;
	}
	if (cur_scheme == S_MUTEX)
		cds_lfs_pop_lock(&lfs_l);
	else if (cur_scheme == S_RCU && in_section)
		rcu_read_lock();
	*tc = ts_before();
	h = __cds_lfs_pop_all(lfs_p());
	*tr = ts_after();
	if (cur_scheme == S_MUTEX)
		cds_lfs_pop_unlock(&lfs_l);
	else if (cur_scheme == S_RCU && in_section)
		rcu_read_unlock();
	return h;
}

static inline int stack_empty(uint64_t *tc, uint64_t *tr)
{
	int r;
	if (cur_kind == K_WFS) {
		*tc = ts_before();
		r = cds_wfs_empty(wfs_cp());
		*tr = ts_after();
	} else {
		*tc = ts_before();
		r = cds_lfs_empty(lfs_cp());
		*tr = ts_after();
	}
	return !!r;
}

/*
 * Iterate a popped chain with the library's iteration macros; stores up to `max` nodes in LIFO
 * (top first) order.  Returns the number of nodes, or -1 when the chain did not end within
 * `max` nodes.  IT_NONBLOCKING (wfs): cds_wfs_first + cds_wfs_next_nonblocking, retried while it
 * answers CDS_WFS_WOULDBLOCK (*wouldblock counts the answers).
 */
static inline int chain_iter(void *head, int it, struct snode **out, int max, unsigned *wouldblock)
{
	int n = 0;

	if (!head)
		return 0;
	if (cur_kind == K_WFS) {
		struct cds_wfs_head *h = head;
		struct cds_wfs_node *node, *nx;
		switch (it) {
		case IT_EACH:
			cds_wfs_for_each_blocking(h, node) {
				if (n >= max)
					return -1;
				out[n++] = (struct snode *) node;
			}
			break;
		case IT_SAFE:
			cds_wfs_for_each_blocking_safe(h, node, nx) {
				if (n >= max)
					return -1;
				out[n++] = (struct snode *) node;
			}
			break;
		default:
			node = cds_wfs_first(h);
			while (node) {
				if (n >= max)
					return -1;
				out[n++] = (struct snode *) node;
				for (;;) {
					nx = cds_wfs_next_nonblocking(node);
					if (nx != CDS_WFS_WOULDBLOCK)
						break;
					(*wouldblock)++;
					caa_cpu_relax();
				}
				node = nx;
			}
			break;
		}
	} else {
		struct cds_lfs_head *h = head;
		struct cds_lfs_node *node, *nx;
		if (it == IT_SAFE) {
			cds_lfs_for_each_safe(h, node, nx) {
				if (n >= max)
					return -1;
				out[n++] = (struct snode *) node;
			}
		} else {
			cds_lfs_for_each(h, node) {
				if (n >= max)
					return -1;
				out[n++] = (struct snode *) node;
			}
		}
	}
	return n;
}

#endif
