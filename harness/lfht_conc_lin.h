/*
 * lfht_conc_lin.h - private linearizability search for lfht_conc.c (Wing-Gong with memoisation over
 * (linearised set, model state)), same idea as lin.c but with an explicit precedence relation:
 *
 *   i must precede j  iff  i and j were issued by the same thread and i returned before j was called
 *                          (program order: same clock, NO margin),
 *                     or   ret(i) + eps < call(j)   (different threads: TSC margin),
 *                     or   i is an initial operation (thread PLIN_T_INIT: executed before the start barrier),
 *                     or   j is the final observation (thread PLIN_T_FINAL: executed after the end barrier).
 *
 * lin.c applies the margin to every pair; with eps (about 1 us) several times longer than a hash table
 * operation that makes consecutive operations of ONE thread look concurrent, which hides e.g.
 * "del(A) -> -ENOENT, then lookup -> A" by the same thread.
 */
#ifndef LFHT_CONC_LIN_H
#define LFHT_CONC_LIN_H

#define PLIN_T_INIT 15
#define PLIN_T_FINAL 14
#define PLIN_TAB_BITS 17
#define PLIN_TAB (1u << PLIN_TAB_BITS)
#define PLIN_BUDGET (PLIN_TAB / 2)

struct plin_state {
	uint64_t s0, s1;
};
typedef int (*plin_apply_fn)(struct plin_state *st, const struct lin_op *o);

struct plin_ent {
	uint64_t done, s0, s1;
	uint32_t epoch;
};

struct plin {
	struct plin_ent *tab;
	uint32_t epoch;
	/* per search */
	plin_apply_fn apply;
	const struct lin_op *ops;
	int n;
	uint64_t pred[LIN_MAX_OPS];
	uint64_t nodes, used;
	int inconclusive;
	int order[LIN_MAX_OPS];
};

static __thread struct plin *plin_tls;

static int plin_seen_or_add(struct plin *p, uint64_t done, const struct plin_state *st)
{
	uint64_t h = (done * 0x9e3779b97f4a7c15ULL) ^ (st->s0 * 0xc2b2ae3d27d4eb4fULL) ^ (st->s1 * 0x165667b19e3779f9ULL);
	uint32_t i = (uint32_t) (h >> (64 - PLIN_TAB_BITS));

	for (;; i = (i + 1) & (PLIN_TAB - 1)) {
		struct plin_ent *e = &p->tab[i];
		if (e->epoch != p->epoch) {
			e->epoch = p->epoch;
			e->done = done;
			e->s0 = st->s0;
			e->s1 = st->s1;
			p->used++;
			return 0;
		}
		if (e->done == done && e->s0 == st->s0 && e->s1 == st->s1)
			return 1;
	}
}

static int plin_dfs(struct plin *p, uint64_t done, const struct plin_state *st, int depth)
{
	if (depth == p->n)
		return 1;
	if (++p->nodes > PLIN_BUDGET || p->used > PLIN_BUDGET) {
		p->inconclusive = 1;
		return 0;
	}
	for (int i = 0; i < p->n; i++) {
		struct plin_state nx;
		if (done & (1ULL << i))
			continue;
		if (p->pred[i] & ~done)
			continue;
		nx = *st;
		if (!p->apply(&nx, &p->ops[i]))
			continue;
		if (plin_seen_or_add(p, done | (1ULL << i), &nx))
			continue;
		p->order[depth] = i;
		if (plin_dfs(p, done | (1ULL << i), &nx, depth + 1))
			return 1;
		if (p->inconclusive)
			return 0;
	}
	return 0;
}

/* returns LIN_OK / LIN_VIOLATION / LIN_INCONCLUSIVE; *nodes = search nodes expanded, *conc = max #operations
 * that have neither to precede nor to follow one operation (evidence) */
static int plin_check(plin_apply_fn apply, const struct lin_op *ops, int n, uint64_t eps, uint64_t *nodes, int *conc)
{
	struct plin *p = plin_tls;
	struct plin_state st = { 0, 0 };
	int ok, maxc = 0;

	if (n > LIN_MAX_OPS)
		return LIN_INCONCLUSIVE;
	if (!p) {
		p = calloc(1, sizeof(*p));
		if (!p)
			abort();
		p->tab = calloc(PLIN_TAB, sizeof(*p->tab));
		if (!p->tab)
			abort();
		plin_tls = p;
	}
	if (++p->epoch == 0) {
		memset(p->tab, 0, sizeof(*p->tab) * PLIN_TAB);
		p->epoch = 1;
	}
	p->apply = apply;
	p->ops = ops;
	p->n = n;
	p->nodes = p->used = 0;
	p->inconclusive = 0;
	for (int j = 0; j < n; j++) {
		uint64_t m = 0;
		for (int i = 0; i < n; i++) {
			if (i == j)
				continue;
			if (ops[j].thread == PLIN_T_INIT)
				continue;
			if (ops[i].thread == PLIN_T_FINAL)
				continue;
			if (ops[i].thread == PLIN_T_INIT || ops[j].thread == PLIN_T_FINAL)
				m |= 1ULL << i;
			else if (ops[i].thread == ops[j].thread) {
				if (ops[i].ret <= ops[j].call)
					m |= 1ULL << i;
			} else if (ops[i].ret + eps < ops[j].call)
				m |= 1ULL << i;
		}
		p->pred[j] = m;
	}
	for (int j = 0; j < n; j++) {
		int c = 0;
		for (int i = 0; i < n; i++)
			if (i != j && !(p->pred[j] & (1ULL << i)) && !(p->pred[i] & (1ULL << j)))
				c++;
		if (c > maxc)
			maxc = c;
	}
	ok = plin_dfs(p, 0, &st, 0);
	if (nodes)
		*nodes = p->nodes;
	if (conc)
		*conc = maxc;
	if (ok)
		return LIN_OK;
	return p->inconclusive ? LIN_INCONCLUSIVE : LIN_VIOLATION;
}

#endif
