/*
 * progress.c - C17: wait-free / lock-free operations never wait on other threads.
 *
 * Method (fault enumeration over (suspension point P, operation O, initial state, #frozen)):
 *   1-3 pinned "parker" threads start an operation each on a fresh data structure and are
 *   PARKED at hook point P in the middle of it (private per-thread park descriptors driven from
 *   vp_user_hook: several threads may be parked at different points at once).  Once every parker
 *   is confirmed parked, the pinned SUBJECT thread runs operation O and its OWN retired
 *   instructions are counted by single-stepping (EFLAGS.TF + SIGTRAP handler, design fact F7).
 *   Verdicts are taken from that count and from logical events, never from time:
 *     - steps > B while the others are parked              => progress:<O>:blocked-at:<P>
 *     - the subject is about to enter a blocking system call (poll, futex wait, nanosleep,
 *       sched_yield, ...: decoded from RIP/RAX in the trap handler) => same key
 *     - the CDS_WFCQ_WAIT_SLEEP customisation macro is reached by the subject => same key
 *     - (marker mode, --step=0, used for TSan) wait / retry markers hit more than a small bound
 *   After the verdict is recorded in the handler, the parked threads are released so that the
 *   subject can get out; the triple is then reported.
 *   Results of O are compared with the sequential model extended with the parked operations
 *   (linearised or not, depending on the point they are parked at), and after release the final
 *   content of the structure is compared with the model (nothing lost / duplicated).
 *   With nothing in flight ("quiet" triples, also the solo cost baseline) results must be the
 *   model's exactly and *_nonblocking calls must never return WOULDBLOCK.
 *
 * Bounds B (instructions of the subject inside the library call, hook-function overhead included;
 * x4 in ASan builds whose instrumentation multiplies the instruction count):
 *   wait-free and *_nonblocking : max(2000, 20 x largest solo cost of the same operation in this run)
 *   lock-free                   : 50000 (lfq dequeue includes malloc() of a dummy node)
 *   lookup / traversal          : 300 x (nodes + bucket nodes linked in the table + 2) per call
 *
 * Groups (--groups=wfcq,wfs,lfs,lfq,lfht,rs): see progress_q.h, progress_ht.h, progress_rs.h.
 */
#include "vp.h"
#include <sys/time.h>

#ifndef VP_NO_LGPL
/* customisation point documented by urcu/static/wfcqueue.h for LGPL users: reached only by the
 * adaptive busy-wait of BLOCKING operations after 10 failed attempts */
static void c17_wait_sleep(int msec);
#define CDS_WFCQ_WAIT_SLEEP(msec) c17_wait_sleep(msec)
#endif
#include "vp_flavor.h"
#include <urcu/wfcqueue.h>
#include <urcu/wfstack.h>
#include <urcu/lfstack.h>
#include <urcu/rculfqueue.h>
#include <ucontext.h>
#include <sys/syscall.h>
#include <linux/futex.h>
#include <poll.h>
#include <sys/prctl.h>
#include "vp_tun.h"

#if VP_ASAN
#define BSCALE 4
#else
#define BSCALE 1
#endif

/* ------------------------------------------------------------------ options / counters */

static int opt_tf = 1;			/* TF stepping (0: marker counting only) */
static long opt_reps = 1;
static const char *opt_groups;
static int opt_verbose;
static long opt_marker_limit = 64;	/* marker mode: retry/wait markers allowed per operation */

static uint64_t ev_evals, ev_nontrivial, ev_quiet, ev_park_missed, ev_viol, ev_total_steps, ev_wouldblock, ev_helped;

enum { OC_WF, OC_NB, OC_LF, OC_WALK, OC_NR };
static const char *const oc_name[OC_NR] = { "wait-free", "nonblocking", "lock-free", "walk" };

struct opstat {
	const char *name;
	int cls;
	uint64_t solo_min, solo_max, solo_n;
	uint64_t frz_max, frz_n, frz_bound;
	const char *frz_max_at;		/* P of the max */
};
#define MAX_OPS 128
static struct opstat ops[MAX_OPS];
static int nops;

static struct opstat *op_get(const char *name, int cls)
{
	for (int i = 0; i < nops; i++)
		if (ops[i].name == name || !strcmp(ops[i].name, name))
			return &ops[i];
	if (nops >= MAX_OPS) {
		fprintf(stderr, "progress: too many operations\n");
		exit(2);
	}
	ops[nops].name = name;
	ops[nops].cls = cls;
	ops[nops].solo_min = ~0ULL;
	return &ops[nops++];
}

/* the triple being evaluated (subject thread only) */
static struct {
	const char *grp, *P, *state;
	int nfrozen;		/* parkers confirmed parked */
	int want_frozen;
	uint64_t walk_len;	/* OC_WALK bound parameter */
	uint64_t seq;
} cur;

/* ------------------------------------------------------------------ parkers */

#define NPARK 3
struct parker {
	pthread_t tid;
	int idx;
	void (*fn)(struct parker *, void *);
	void *arg;
	int want_point, skip, armed;
	const void *want_ctx;
	uint64_t cmd_seq, done_seq;
	int parked, release, stop;
	uint64_t retry_hits;	/* retry markers met in the current command while not yet parked */
	int blocked_reported;
	long result;		/* filled by fn */
	void *result_p;
	char pad[64];
};
static struct parker parkers[NPARK];
static struct parker libpark;		/* a library-created thread (call_rcu helper, ...) */
static __thread struct parker *tl_parker;
static __thread int tl_subject;

/* harness robustness only (never a verdict): a parker that is starved of CPU for this long is given up on;
 * the triple then counts as park_missed and its result / final-state comparisons are skipped */
#define PARK_TIMEOUT_NS 20000000000ULL

static void park_here(struct parker *p)
{
	uint64_t spins = 0;
	__atomic_store_n(&p->parked, 1, __ATOMIC_SEQ_CST);
	while (!__atomic_load_n(&p->release, __ATOMIC_ACQUIRE)) {
		if (++spins > 4000)
			usleep(20);
		else
			__asm__ __volatile__("pause");
	}
	__atomic_store_n(&p->parked, 0, __ATOMIC_SEQ_CST);
}

static void release_all(void)
{
	for (int i = 0; i < NPARK; i++)
		__atomic_store_n(&parkers[i].release, 1, __ATOMIC_SEQ_CST);
	__atomic_store_n(&libpark.release, 1, __ATOMIC_SEQ_CST);
}

/* ------------------------------------------------------------------ step counter */

static struct {
	volatile int active;
	volatile uint64_t steps, bound;
	volatile int verdict;		/* 1 bound, 2 blocking syscall, 3 wait-sleep macro, 4 marker bound */
	volatile long sys_nr;
	volatile uint64_t steps_at_verdict;
	uint32_t mark[URCU_VP_NR_POINTS];
	struct opstat *os;
} st;

#define STEP_ON() do { if (opt_tf) __asm__ __volatile__( \
	"lea -128(%%rsp),%%rsp\n\tpushfq\n\torq $0x100,(%%rsp)\n\tpopfq\n\tlea 128(%%rsp),%%rsp" ::: "memory", "cc"); } while (0)
#define STEP_OFF() do { if (opt_tf) __asm__ __volatile__( \
	"lea -128(%%rsp),%%rsp\n\tpushfq\n\tandq $~0x100,(%%rsp)\n\tpopfq\n\tlea 128(%%rsp),%%rsp" ::: "memory", "cc"); } while (0)

static int blocking_syscall(long nr, long a2)
{
	switch (nr) {
	case SYS_poll: case SYS_select: case SYS_sched_yield: case SYS_pause: case SYS_nanosleep:
	case SYS_clock_nanosleep: case SYS_pselect6: case SYS_ppoll: case SYS_epoll_wait: case SYS_epoll_pwait:
	case SYS_wait4: case SYS_rt_sigtimedwait:
		return 1;
	case SYS_futex: {
		int cmd = (int) a2 & 127;
		return cmd == FUTEX_WAIT || cmd == FUTEX_WAIT_BITSET || cmd == FUTEX_LOCK_PI || cmd == 11 /* WAIT_REQUEUE_PI */
			|| cmd == 13 /* LOCK_PI2 */;
	}
	default:
		return 0;
	}
}

static void set_verdict(int v)
{
	if (st.verdict)
		return;
	st.verdict = v;
	st.steps_at_verdict = st.steps;
	release_all();
#if !VP_TSAN
	/* the verdict is taken; if the operation does not even return once everybody has been released (it spins
	 * on its own), do not wait for the 2-minute watchdog to write the result */
	struct itimerval itv = { { 0, 0 }, { 10, 0 } };
	setitimer(ITIMER_REAL, &itv, NULL);
#endif
}

#if !VP_TSAN
static void alarm_handler(int sig)
{
	(void) sig;
	if (st.active && st.verdict && st.os) {
		char key[160];
		snprintf(key, sizeof(key), "progress:%s:blocked-at:%s", st.os->name,
			 cur.want_frozen && cur.P ? cur.P : "none");
		vp_violation(key, "O=%s exceeded its bound of %llu own steps (%llu at the verdict) and had still not returned 10 s after every parked thread was released: it spins on its own",
			     st.os->name, (unsigned long long) st.bound, (unsigned long long) st.steps_at_verdict);
		int rc = vp_finish();
		_exit(rc ? rc : 1);
	}
}
#endif

static void trap_handler(int sig, siginfo_t *si, void *ucv)
{
	ucontext_t *uc = ucv;
	(void) sig; (void) si;
	if (!st.active) {
		uc->uc_mcontext.gregs[REG_EFL] &= ~0x100L;
		return;
	}
	st.steps++;
	const unsigned char *ip = (const unsigned char *) uc->uc_mcontext.gregs[REG_RIP];
	if (ip[0] == 0x0f && ip[1] == 0x05) {
		long nr = uc->uc_mcontext.gregs[REG_RAX];
		if (blocking_syscall(nr, uc->uc_mcontext.gregs[REG_RSI])) {
			st.sys_nr = nr;
			set_verdict(2);
		}
	}
	if (st.steps > st.bound)
		set_verdict(1);
	if (st.verdict)
		uc->uc_mcontext.gregs[REG_EFL] &= ~0x100L;	/* the rest runs at full speed */
}

static uint64_t bound_for(struct opstat *os)
{
	uint64_t b;
	switch (os->cls) {
	case OC_LF:
		return 50000ULL * BSCALE;
	case OC_WALK:
		b = 300ULL * BSCALE * (cur.walk_len + 2);
		return b;
	default:
		b = os->solo_n ? 20 * os->solo_max : 0;
		if (b < 2000ULL * BSCALE)
			b = 2000ULL * BSCALE;
		return b;
	}
}

static inline void step_begin(struct opstat *os)
{
	st.os = os;
	st.steps = 0;
	st.verdict = 0;
	st.sys_nr = -1;
	memset(st.mark, 0, sizeof(st.mark));
	/* quiet triples: the lock-free bound is the cap for everything (an operation that needs more
	 * with nothing in flight is waiting for an event that cannot come) */
	st.bound = cur.want_frozen ? bound_for(os) : (os->cls == OC_WALK ? bound_for(os) : 50000ULL * BSCALE);
	VP_STORE(st.active, 1);
}
static inline void step_end(void)
{
	VP_STORE(st.active, 0);
#if !VP_TSAN
	if (st.verdict) {
		struct itimerval off = { { 0, 0 }, { 0, 0 } };
		setitimer(ITIMER_REAL, &off, NULL);	/* the operation did return: the normal path reports */
	}
#endif
	ev_total_steps += st.steps;
}

#ifndef VP_NO_LGPL
static void c17_wait_sleep(int msec)
{
	(void) msec;
	if (tl_subject && st.active)
		set_verdict(3);
	usleep(30);
}
#endif

static int is_wait_marker(int p)
{
	return p == URCU_VP_WFCQ_BUSY_WAIT || p == URCU_VP_WFCQ_SYNC_NEXT_WAIT || p == URCU_VP_WFS_SYNC_NEXT_WAIT ||
		p == URCU_VP_WFCQ_SPLICE_NULL_HEAD;
}
static int is_retry_marker(int p)
{
	return p == URCU_VP_LFS_PUSH_RETRY || p == URCU_VP_LFS_POP_RETRY || p == URCU_VP_LFQ_DEQ_RETRY ||
		p == URCU_VP_LFQ_ENQ_HELPED || p == URCU_VP_HT_ADD_RETRY || p == URCU_VP_HT_REPLACE_RETRY ||
		p == URCU_VP_HT_ADD_GC_HELP || p == URCU_VP_HT_GC_BEFORE_UNLINK || p == URCU_VP_WFS_POP_CMPXCHG_FAILED ||
		p == URCU_VP_LFS_PUSH_BEFORE_CMPXCHG || p == URCU_VP_LFS_POP_BEFORE_CMPXCHG || p == URCU_VP_LFQ_DEQ_BEFORE_CMPXCHG ||
		p == URCU_VP_HT_ADD_BEFORE_CMPXCHG || p == URCU_VP_HT_REPLACE_BEFORE_CMPXCHG;
}

static void c17_hook(int point, const void *ctx)
{
	struct parker *p = tl_parker;
	if (p) {
		/* A parker on its way to its park point is an ordinary running thread.  If it goes round a retry
		 * loop 300 000 times while another thread sits parked inside its own operation and the subject has
		 * not started yet, it is not being interfered with - it is waiting for the parked thread, which is
		 * exactly what a lock-free operation must never do.  (Count of loop iterations, not time.) */
		if (is_retry_marker(point) && point != p->want_point && __atomic_load_n(&p->armed, __ATOMIC_RELAXED) &&
		    !st.active && ++p->retry_hits > 300000 && !p->blocked_reported) {
			int others = 0;
			for (int i = 0; i < NPARK; i++)
				others += &parkers[i] != p && __atomic_load_n(&parkers[i].parked, __ATOMIC_ACQUIRE);
			if (others) {
				char key[128];
				p->blocked_reported = 1;
				snprintf(key, sizeof(key), "progress:operation-spins-behind-parked-thread:%s",
					 vp_point_names[point] ? vp_point_names[point] : "?");
				vp_violation(key, "flavor=%s a thread heading for park point %s went through retry marker %s more than 300000 times in one operation while %d other thread(s) were parked inside their own operation and nothing else was running: it waits for a suspended thread instead of helping it",
					     VP_FLAVOR_NAME, vp_point_names[p->want_point] ? vp_point_names[p->want_point] : "?",
					     vp_point_names[point] ? vp_point_names[point] : "?", others);
				/* the run cannot be trusted to wind down (a thread may spin for ever): write the result now */
				int rc = vp_finish();
				_exit(rc ? rc : 1);
			}
		}
		if (__atomic_load_n(&p->armed, __ATOMIC_ACQUIRE) && p->want_point == point && (!p->want_ctx || p->want_ctx == ctx)) {
			if (p->skip > 0) {
				p->skip--;
				return;
			}
			__atomic_store_n(&p->armed, 0, __ATOMIC_RELAXED);
			park_here(p);
		}
		return;
	}
	if (tl_subject) {
		if (st.active) {
			uint32_t c = ++st.mark[point];
			/* marker verdicts: a wait-free / nonblocking operation meets a wait marker at most once
			 * (then returns WOULDBLOCK); retry markers are bounded for everybody when the others
			 * are parked.  Secondary to the step count; primary when --step=0. */
			if (is_wait_marker(point)) {
				if ((st.os->cls == OC_WF || st.os->cls == OC_NB) && c > 2)
					set_verdict(4);
			} else if (is_retry_marker(point) && c > (uint32_t) opt_marker_limit)
				set_verdict(4);
		}
		return;
	}
	/* thread created by the library */
	if (__atomic_load_n(&libpark.armed, __ATOMIC_ACQUIRE) && libpark.want_point == point) {
		int one = 1;
		if (__atomic_compare_exchange_n(&libpark.armed, &one, 0, 0, __ATOMIC_SEQ_CST, __ATOMIC_SEQ_CST))
			park_here(&libpark);
	}
}

/* ------------------------------------------------------------------ parker threads */

static inline void subj_offline(void) { vp_rcu_offline(); }
static inline void subj_online(void) { vp_rcu_online(); }

static void *parker_main(void *arg)
{
	struct parker *p = arg;
	uint64_t last = 0, spins = 0;
	vp_pin(1 + p->idx);
	(void) vp_self();
	tl_parker = p;
#if !VP_IS_BP
	rcu_register_thread();
#endif
	vp_rcu_offline();
	for (;;) {
		uint64_t s = __atomic_load_n(&p->cmd_seq, __ATOMIC_ACQUIRE);
		if (s == last) {
			if (VP_LOAD(p->stop))
				break;
			if (++spins > 200000)
				usleep(50);
			else
				__asm__ __volatile__("pause");
			continue;
		}
		spins = 0;
		last = s;
		p->retry_hits = 0;
		vp_rcu_online();
		p->fn(p, p->arg);
		vp_rcu_offline();
		__atomic_store_n(&p->armed, 0, __ATOMIC_RELAXED);
		__atomic_store_n(&p->done_seq, s, __ATOMIC_RELEASE);
	}
	vp_rcu_online();
#if !VP_IS_BP
	rcu_unregister_thread();
#endif
	return NULL;
}

static void park_start(int i, void (*fn)(struct parker *, void *), void *arg, int point, int skip, const void *ctx)
{
	struct parker *p = &parkers[i];
	p->fn = fn;
	p->arg = arg;
	p->want_point = point;
	p->want_ctx = ctx;
	p->skip = skip;
	p->result = 0;
	p->result_p = NULL;
	__atomic_store_n(&p->release, 0, __ATOMIC_SEQ_CST);
	__atomic_store_n(&p->armed, point != 0, __ATOMIC_RELEASE);
	__atomic_store_n(&p->cmd_seq, p->cmd_seq + 1, __ATOMIC_RELEASE);
}

/* 1: parked at its point; 0: the operation completed without reaching it; -1: neither (harness trouble) */
static int park_wait_parked(struct parker *p)
{
	uint64_t t0 = vp_now_ns(), spins = 0;
	int ret;
	subj_offline();
	for (;;) {
		if (__atomic_load_n(&p->parked, __ATOMIC_ACQUIRE)) { ret = 1; break; }
		if (p != &libpark && __atomic_load_n(&p->done_seq, __ATOMIC_ACQUIRE) == p->cmd_seq) { ret = 0; break; }
		if ((++spins & 0xfff) == 0 && vp_now_ns() - t0 > PARK_TIMEOUT_NS) { ret = -1; break; }
		__asm__ __volatile__("pause");
	}
	subj_online();
	return ret;
}

static void park_wait_done(int i)
{
	struct parker *p = &parkers[i];
	uint64_t spins = 0;
	subj_offline();
	while (__atomic_load_n(&p->done_seq, __ATOMIC_ACQUIRE) != p->cmd_seq) {
		if (++spins > 100000)
			usleep(20);
		else
			__asm__ __volatile__("pause");
	}
	subj_online();
	VP_STORE(vp_self()->progress, vp_self()->progress + 1);
}

/* run fn on parker i to completion (no parking) */
static void park_run(int i, void (*fn)(struct parker *, void *), void *arg)
{
	park_start(i, fn, arg, 0, 0, NULL);
	park_wait_done(i);
}

/* ------------------------------------------------------------------ triples */

static int grp_sampled[16];
static int wb_sampled;

static void triple_begin(const char *grp, const char *P, const char *state, int want_frozen)
{
	cur.grp = grp;
	cur.P = P;
	cur.state = state;
	cur.want_frozen = want_frozen;
	cur.nfrozen = 0;
	cur.walk_len = 0;
	cur.seq++;
}

static const char *verdict_text(char *buf, size_t len)
{
	switch (st.verdict) {
	case 1: snprintf(buf, len, "still running after %llu own instructions (bound %llu)",
			 (unsigned long long) st.steps_at_verdict, (unsigned long long) st.bound); break;
	case 2: snprintf(buf, len, "entered blocking system call %ld after %llu own instructions",
			 st.sys_nr, (unsigned long long) st.steps_at_verdict); break;
	case 3: snprintf(buf, len, "reached the adaptive busy-wait sleep (CDS_WFCQ_WAIT_SLEEP) after %llu own instructions",
			 (unsigned long long) st.steps_at_verdict); break;
	case 4: snprintf(buf, len, "wait/retry marker bound exceeded (busy_wait=%u wfcq_sync_next=%u wfs_sync_next=%u) after %llu own instructions",
			 st.mark[URCU_VP_WFCQ_BUSY_WAIT], st.mark[URCU_VP_WFCQ_SYNC_NEXT_WAIT], st.mark[URCU_VP_WFS_SYNC_NEXT_WAIT],
			 (unsigned long long) st.steps_at_verdict); break;
	default: snprintf(buf, len, "ok"); break;
	}
	return buf;
}

/* account one evaluated operation of the current triple; `res` = printable result; `wrong` = NULL or
 * why the result contradicts the model.  Uses the step context of the LAST stepped call unless
 * steps/verdict are passed explicitly through st. */
static void triple_op(struct opstat *os, const char *res, const char *wrong, int sampled_grp)
{
	char vb[256], key[160];
	uint64_t steps = st.steps;
	int frozen = cur.nfrozen > 0 && cur.nfrozen == cur.want_frozen;

	/* a parker that did not reach its point (never seen on the unchanged tree) invalidates the model's
	 * assumptions about pending operations: keep the step verdict, drop the result comparison */
	if (cur.want_frozen && !frozen && wrong) {
		vp_inconclusive("a parker did not reach its suspension point: result comparison skipped");
		wrong = NULL;
	}
	ev_evals++;
	if (cur.want_frozen == 0) {
		ev_quiet++;
		if (!st.verdict) {
			if (steps < os->solo_min) os->solo_min = steps;
			if (steps > os->solo_max) os->solo_max = steps;
			os->solo_n++;
		}
	} else if (frozen) {
		ev_nontrivial++;
		vp_sig_add("%s:%s:%s:%d", cur.P, os->name, cur.state, cur.nfrozen);
		os->frz_n++;
		os->frz_bound = st.bound;
		if (steps > os->frz_max) {
			os->frz_max = steps;
			os->frz_max_at = cur.P;
		}
	} else
		ev_park_missed++;
	if (res && strstr(res, "WOULDBLOCK"))
		ev_wouldblock++;
	if (st.verdict) {
		ev_viol++;
		snprintf(key, sizeof(key), "progress:%s:blocked-at:%s", os->name, cur.want_frozen ? cur.P : "none");
		vp_violation(key, "P=%s O=%s (%s) state=%s frozen=%d/%d: %s; solo cost %llu..%llu; result after release: %s",
			     cur.P, os->name, oc_name[os->cls], cur.state, cur.nfrozen, cur.want_frozen,
			     verdict_text(vb, sizeof(vb)),
			     (unsigned long long) (os->solo_n ? os->solo_min : 0), (unsigned long long) os->solo_max, res ? res : "-");
	} else if (wrong) {
		ev_viol++;
		snprintf(key, sizeof(key), "progress:%s:wrong-result:%s", os->name, cur.want_frozen ? cur.P : "quiet");
		vp_violation(key, "P=%s O=%s state=%s frozen=%d/%d: result %s: %s (%llu own instructions)",
			     cur.P, os->name, cur.state, cur.nfrozen, cur.want_frozen, res ? res : "-", wrong,
			     (unsigned long long) steps);
	}
	if (frozen && !st.verdict && !wrong) {
		int want = 0;
		if (sampled_grp >= 0 && sampled_grp < 16 && !grp_sampled[sampled_grp]) {
			grp_sampled[sampled_grp] = 1;
			want = 1;
		} else if (res && strstr(res, "WOULDBLOCK") && wb_sampled < 1) {
			wb_sampled++;
			want = 1;
		}
		if (want)
			vp_sample_add("P=%s O=%s state=%s frozen=%d -> %s in %llu instructions (solo %llu..%llu, bound %llu)",
				      cur.P, os->name, cur.state, cur.nfrozen, res ? res : "-", (unsigned long long) steps,
				      (unsigned long long) (os->solo_n ? os->solo_min : 0), (unsigned long long) os->solo_max,
				      (unsigned long long) st.bound);
	}
	if (opt_verbose)
		fprintf(stderr, "[%s] P=%s O=%s state=%s frozen=%d/%d -> %s steps=%llu bound=%llu verdict=%d %s\n", cur.grp, cur.P,
			os->name, cur.state, cur.nfrozen, cur.want_frozen, res ? res : "-", (unsigned long long) steps,
			(unsigned long long) st.bound, st.verdict, wrong ? wrong : "");
	VP_STORE(vp_self()->progress, vp_self()->progress + 1);
}

/* post-release consistency failure (final content differs from the model) */
static void triple_final_wrong(const char *opname, const char *fmt, ...) __attribute__((format(printf, 2, 3)));
static void triple_final_wrong(const char *opname, const char *fmt, ...)
{
	char msg[512], key[160];
	va_list ap;
	if (cur.want_frozen && cur.nfrozen != cur.want_frozen) {
		vp_inconclusive("a parker did not reach its suspension point: final-state comparison skipped");
		return;
	}
	va_start(ap, fmt);
	vsnprintf(msg, sizeof(msg), fmt, ap);
	va_end(ap);
	ev_viol++;
	snprintf(key, sizeof(key), "progress:%s:final-state:%s", opname, cur.want_frozen ? cur.P : "quiet");
	vp_violation(key, "P=%s O=%s state=%s frozen=%d/%d: after releasing the parked threads: %s", cur.P, opname, cur.state,
		     cur.nfrozen, cur.want_frozen, msg);
}

static int group_enabled(const char *g)
{
	if (!opt_groups || !*opt_groups)
		return 1;
	size_t n = strlen(g);
	const char *s = opt_groups;
	while (*s) {
		const char *e = strchr(s, ',');
		size_t l = e ? (size_t) (e - s) : strlen(s);
		if (l == n && !strncmp(s, g, n))
			return 1;
		if (!e)
			break;
		s = e + 1;
	}
	return 0;
}

static int wd_confirm(char *buf, size_t len)
{
#if VP_TSAN
	/* marker mode: no step-count verdict to confirm; do not touch the subject's private state from here */
	snprintf(buf, len, "progress harness stalled (marker mode: a wait without marker cannot be told from a slow run)");
	return 0;
#endif
	/* a verdict already taken from the step count makes the stuck state a confirmed violation */
	if (st.active && st.verdict && st.os) {
		snprintf(buf, len, "progress:%s:blocked-at:%s", st.os->name, cur.want_frozen ? cur.P : "none");
		return 1;
	}
	{
		uint64_t s0 = st.steps;
		usleep(200000);
		snprintf(buf, len, "progress harness stalled: group=%s P=%s state=%s frozen=%d/%d subject-active=%d op=%s steps=%llu(+%llu in 200ms) bound=%llu "
			 "parkers[parked/armed/release/cmd/done]=%d/%d/%d/%llu/%llu %d/%d/%d/%llu/%llu %d/%d/%d/%llu/%llu",
			 cur.grp ? cur.grp : "-", cur.P ? cur.P : "-", cur.state ? cur.state : "-", cur.nfrozen, cur.want_frozen, st.active,
			 st.os ? st.os->name : "-", (unsigned long long) s0, (unsigned long long) (st.steps - s0), (unsigned long long) st.bound,
			 parkers[0].parked, parkers[0].armed, parkers[0].release, (unsigned long long) parkers[0].cmd_seq, (unsigned long long) parkers[0].done_seq,
			 parkers[1].parked, parkers[1].armed, parkers[1].release, (unsigned long long) parkers[1].cmd_seq, (unsigned long long) parkers[1].done_seq,
			 parkers[2].parked, parkers[2].armed, parkers[2].release, (unsigned long long) parkers[2].cmd_seq, (unsigned long long) parkers[2].done_seq);
	}
	return 0;
}

#include "progress_q.h"
#include "progress_ht.h"
#include "progress_rs.h"

/* counters are refreshed after every group so that an inconclusive watchdog stop keeps what was observed */
static void flush_counters(void)
{
	vp_counter_set("evaluations", ev_evals);
	vp_counter_set("nontrivial", ev_nontrivial);
	vp_counter_set("quiet_evaluations", ev_quiet);
	vp_counter_set("park_missed", ev_park_missed);
	vp_counter_set("own_steps_total", ev_total_steps);
	vp_counter_set("wouldblock_results", ev_wouldblock);
	vp_counter_set("helped_operations", ev_helped);
	vp_counter_set("violating_operations", ev_viol);
	vp_counter_set("tf_stepping", (uint64_t) opt_tf);
}

static void report_ops(void)
{
	char line[500];
	size_t off = 0;
	line[0] = 0;
	for (int i = 0; i < nops; i++) {
		struct opstat *o = &ops[i];
		char one[160];
		snprintf(one, sizeof(one), "%s[%s] solo=%llu..%llu frozen-max=%llu@%s n=%llu B=%llu; ", o->name, oc_name[o->cls],
			 (unsigned long long) (o->solo_n ? o->solo_min : 0), (unsigned long long) o->solo_max,
			 (unsigned long long) o->frz_max, o->frz_max_at ? o->frz_max_at : "-", (unsigned long long) o->frz_n,
			 (unsigned long long) o->frz_bound);
		if (off + strlen(one) >= sizeof(line) - 1) {
			vp_note("%s", line);
			off = 0;
			line[0] = 0;
		}
		off += (size_t) snprintf(line + off, sizeof(line) - off, "%s", one);
	}
	if (off)
		vp_note("%s", line);
}

int main(int argc, char **argv)
{
	/* lazy PLT binding would charge the dynamic linker's symbol resolution to the first call of
	 * an operation: bind everything at start */
	if (!getenv("LD_BIND_NOW")) {
		setenv("LD_BIND_NOW", "1", 1);
		execv("/proc/self/exe", argv);
	}
	prctl(PR_SET_NAME, "c17_progress", 0, 0, 0);
	vp_init(argc, argv, "progress");
	opt_tf = (int) vp_arg_long("step", VP_TSAN ? 0 : 1);
	opt_reps = vp_arg_long("reps", 1);
	opt_groups = vp_arg("groups", "");
	opt_verbose = (int) vp_arg_long("verbose", 0);
	opt_marker_limit = vp_arg_long("marker-limit", 64);
	vp_opt.placement = 0;
	if (vp_ncpu < 2) {
		vp_inconclusive("fewer than 2 CPUs");
		return vp_finish();
	}

	struct sigaction sa;
	memset(&sa, 0, sizeof(sa));
	sa.sa_sigaction = trap_handler;
	sa.sa_flags = SA_SIGINFO;
	sigemptyset(&sa.sa_mask);
	sigaction(SIGTRAP, &sa, NULL);
#if !VP_TSAN
	{
		struct sigaction sal;
		memset(&sal, 0, sizeof(sal));
		sal.sa_handler = alarm_handler;
		sigemptyset(&sal.sa_mask);
		sigaction(SIGALRM, &sal, NULL);
	}
#endif

	vp_pin(0);
	tl_subject = 1;
	vp_user_hook = c17_hook;
	vp_lib_thread_slot_base(NPARK + 1);
#if !VP_IS_BP
	rcu_register_thread();
#endif
	for (int i = 0; i < NPARK; i++) {
		parkers[i].idx = i;
		if (pthread_create(&parkers[i].tid, NULL, parker_main, &parkers[i])) {
			perror("pthread_create");
			return 2;
		}
	}
	/* generous: on an oversubscribed machine (another process pinned to the same CPUs) a single-stepped
	 * operation has been seen to advance by only ~25 instructions per second */
	vp_watchdog_start((uint64_t) vp_arg_long("stall-ms", vp_opt.tier ? 300000 : 120000), wd_confirm);

	/* the repetition number selects API variants (locked / lock-free head types, allocator, flags, first or
	 * second cmpxchg attempt of parked pushers, ...): start at a seed-dependent offset */
	long rep0 = (long) (vp_opt.seed % 6);
	for (long rep = rep0; rep < rep0 + opt_reps && vp_nviolations() < 24; rep++) {
		if (group_enabled("wfcq")) { run_wfcq(rep); flush_counters(); }
		if (group_enabled("wfs")) { run_wfs(rep); flush_counters(); }
		if (group_enabled("lfs")) { run_lfs(rep); flush_counters(); }
		if (group_enabled("lfq")) { run_lfq(rep); flush_counters(); }
		if (group_enabled("lfht")) { run_lfht(rep); flush_counters(); }
		if (group_enabled("rs")) { run_rs(rep); flush_counters(); }
	}

	for (int i = 0; i < NPARK; i++) {
		VP_STORE(parkers[i].stop, 1);
		pthread_join(parkers[i].tid, NULL);
	}
	rs_teardown();
#if !VP_IS_BP
	rcu_unregister_thread();
#endif
	flush_counters();
	report_ops();
	return vp_finish();
}
