/*
 * uatomic.c - property C20: uatomic operations are atomic, return the documented
 * value for every width / operand and the documented RMWs are full barriers.
 *
 *   --mode=seq     (i)   sequential differential test against a plain-C reference
 *   --mode=conc    (ii)  concurrent conservation tests
 *   --mode=litmus  (iii) store-buffer litmus around xchg / cmpxchg / add_return /
 *                        sub_return on a private dummy, with a positive control
 *
 * The same source is built against the default x86 implementation (`plain`,
 * `asan`) and against the compiler-builtin implementation (`builtins`).
 */
#include "vp.h"
#include <urcu/arch.h>
#include <urcu/compiler.h>
#include <urcu/uatomic.h>

#if defined(CONFIG_RCU_USE_ATOMIC_BUILTINS)
#define IMPL_NAME "builtins"
#else
#define IMPL_NAME "x86-asm"
#endif

#if !defined(UATOMIC_HAS_ATOMIC_BYTE) || !defined(UATOMIC_HAS_ATOMIC_SHORT) || \
	!defined(UATOMIC_HAS_ATOMIC_INT) || !defined(UATOMIC_HAS_ATOMIC_LLONG)
#error "C20 harness expects 1/2/4/8-byte uatomic support on x86-64 (UATOMIC_HAS_ATOMIC_*)"
#endif

typedef uint64_t __attribute__((may_alias)) u64a;

static inline uint64_t wmask(int w)
{
	return w == 8 ? ~0ULL : ((1ULL << (8 * w)) - 1);
}
static inline uint64_t rd_le(const unsigned char *p, int w)
{
	uint64_t v = 0;
	memcpy(&v, p, (size_t) w);
	return v;
}
static inline void wr_le(unsigned char *p, int w, uint64_t v)
{
	memcpy(p, &v, (size_t) w);
}
static void hex(char *out, size_t cap, const unsigned char *p, size_t n)
{
	size_t o = 0;
	for (size_t i = 0; i < n && o + 3 < cap; i++)
		o += (size_t) snprintf(out + o, cap - o, "%02x%s", p[i], (i & 15) == 15 ? " " : "");
	if (cap)
		out[o < cap ? o : cap - 1] = 0;
}

/* ====================================================================== (i) sequential */

#define SEQ_GUARD 16		/* guard bytes on each side of the 16-byte window */
#define SEQ_WIN 16
#define SEQ_IMG (SEQ_GUARD + SEQ_WIN + SEQ_GUARD)
#define SEQ_MAX_FAILS 400u	/* global bound; per (operation, width) bound in seq_skip() */

struct seq_ctx {
	unsigned char *real, *ref;	/* SEQ_IMG bytes each, 64-byte aligned, heap */
	uint64_t evals, nontrivial;
	unsigned fails, fails_nobar;
	char failed_bw[64][24];		/* "base:w" pairs that failed WITH the barrier */
	unsigned failed_cnt[64];
	int nfailed_bw;
	int want_sample, nsampled;
	const char *sample_op[4];
	struct vp_rng rng;
	unsigned char *tmp_old, *tmp_a;	/* heap scratch operands of the random programs */
};

typedef void (*seq_drv_fn)(struct seq_ctx *c, unsigned off, const void *olds, size_t no,
			   const void *as, size_t na);
struct seq_variant {
	const char *name, *base;
	int uses_a, hasret;
	seq_drv_fn fn;		/* plain store; compiler barrier; operation */
	seq_drv_fn fn_nobar;	/* plain store directly followed by the operation */
};

struct seq_desc {
	const char *vname, *base, *tname;
	int w, sgn, hasret, nobar;
};
struct seq_case {
	unsigned off;
	uint64_t old, a, b, ret_raw;
	long long ret_s;
	uint64_t xret;
	long long xret_s;
	uint64_t now, xnew;
};

static inline int seq_img_differs(const unsigned char *x, const unsigned char *y)
{
	const u64a *a = (const u64a *) x, *b = (const u64a *) y;
	return ((a[0] ^ b[0]) | (a[1] ^ b[1]) | (a[2] ^ b[2]) |
		(a[3] ^ b[3]) | (a[4] ^ b[4]) | (a[5] ^ b[5])) != 0;
}

static void seq_fail(struct seq_ctx *c, int nobar, const char *vname, const char *base, const char *tname,
		     int w, int sgn, unsigned off, uint64_t old, uint64_t a, uint64_t b, int hasret,
		     uint64_t ret_raw, long long ret_s, uint64_t xret, long long xret_s,
		     uint64_t now, uint64_t xnew)
{
	char key[160], himg[160], hrefi[160];
	int bad_ret = ret_s != xret_s, bad_mem = now != xnew, bad_nb = 0;
	for (unsigned i = 0; i < SEQ_IMG; i++) {
		if (i >= SEQ_GUARD + off && i < SEQ_GUARD + off + (unsigned) w)
			continue;
		if (c->real[i] != c->ref[i])
			bad_nb = 1;
	}
	hex(himg, sizeof(himg), c->real, SEQ_IMG);
	hex(hrefi, sizeof(hrefi), c->ref, SEQ_IMG);
	c->fails++;
#define SEQ_REPORT(what)									\
	do {											\
		snprintf(key, sizeof(key), "uatomic:%s:w%d:%s", base, w, what);			\
		vp_violation(key, "impl=%s variant=%s type=%s(%s) window-offset=%u old=0x%llx operand=0x%llx operand2/new=0x%llx: " \
			     "returned 0x%llx (%lld)%s expected 0x%llx (%lld); memory now 0x%llx expected 0x%llx; " \
			     "image[-16..+32) real=%s ref=%s",					\
			     IMPL_NAME, vname, tname, sgn ? "signed" : "unsigned", off,		\
			     (unsigned long long) old, (unsigned long long) a, (unsigned long long) b, \
			     (unsigned long long) ret_raw, ret_s, hasret ? "" : " [void op]",	\
			     (unsigned long long) xret, xret_s, (unsigned long long) now,	\
			     (unsigned long long) xnew, himg, hrefi);				\
	} while (0)
	char bw[24];
	int seen_with_barrier = 0;
	snprintf(bw, sizeof(bw), "%s:%d", base, w);
	for (int i = 0; i < c->nfailed_bw; i++)
		if (!strcmp(c->failed_bw[i], bw)) {
			seen_with_barrier = 1;
			if (!nobar)
				c->failed_cnt[i]++;
		}
	if (!nobar && !seen_with_barrier && c->nfailed_bw < 64) {
		c->failed_cnt[c->nfailed_bw] = 1;
		snprintf(c->failed_bw[c->nfailed_bw++], sizeof(c->failed_bw[0]), "%s", bw);
	}
	if (nobar && seen_with_barrier)
		return;		/* already reported by the barrier pass: not a compiler-visibility problem */
	if (nobar) {
		/* the same inputs passed with a compiler barrier between the plain store of
		 * `old` and the operation: the compiler dropped / reordered that store */
		snprintf(key, sizeof(key), "uatomic:%s:w%d:preceding-plain-store-lost", base, w);
		vp_violation(key, "impl=%s variant=%s type=%s(%s) window-offset=%u: `*p = 0x%llx; uatomic_%s(p, 0x%llx ...);` without anything in between "
			     "behaved as if the plain store had not happened: returned 0x%llx (%lld)%s expected 0x%llx (%lld); memory now 0x%llx expected 0x%llx "
			     "(the operation does not tell the compiler that it reads *p, e.g. \"=m\" instead of \"+m\"); image real=%s ref=%s",
			     IMPL_NAME, vname, tname, sgn ? "signed" : "unsigned", off, (unsigned long long) old, base,
			     (unsigned long long) a, (unsigned long long) ret_raw, ret_s, hasret ? "" : " [void op]",
			     (unsigned long long) xret, xret_s, (unsigned long long) now, (unsigned long long) xnew, himg, hrefi);
		return;
	}
	if (bad_ret)
		SEQ_REPORT("wrong-result");
	if (bad_mem)
		SEQ_REPORT("wrong-memory");
	if (bad_nb)
		SEQ_REPORT("neighbour-clobbered");
	if (!bad_ret && !bad_mem && !bad_nb)
		SEQ_REPORT("image-mismatch");
#undef SEQ_REPORT
}

/* an (operation, width) that already failed repeatedly is not exercised further; the others go on */
static int seq_skip(const struct seq_ctx *c, const char *base, int w)
{
	char bw[24];
	snprintf(bw, sizeof(bw), "%s:%d", base, w);
	for (int i = 0; i < c->nfailed_bw; i++)
		if (!strcmp(c->failed_bw[i], bw))
			return c->failed_cnt[i] >= 6;
	return 0;
}

/* out-of-line slow path of the drivers: mismatch report or sample; returns 1 on mismatch */
static __attribute__((noinline)) int seq_slow(struct seq_ctx *c, const struct seq_desc *d,
					      const struct seq_case *k, int bad)
{
	if (bad) {
		seq_fail(c, d->nobar, d->vname, d->base, d->tname, d->w, d->sgn, k->off, k->old, k->a, k->b,
			 d->hasret, k->ret_raw, k->ret_s, k->xret, k->xret_s, k->now, k->xnew);
		memcpy(c->real, c->ref, SEQ_IMG);
		return 1;
	}
	if (c->want_sample && k->xnew != k->old && d->hasret && k->old > (wmask(d->w) >> 1) && k->a > 3) {
		c->want_sample = 0;
		vp_sample_add("seq %s on %s (w%d %s) at window offset %u: old=0x%llx operand=0x%llx -> returned 0x%llx (%lld), memory 0x%llx, 48-byte image identical to plain-C reference",
			      d->vname, d->tname, d->w, d->sgn ? "signed" : "unsigned", k->off,
			      (unsigned long long) k->old, (unsigned long long) k->a,
			      (unsigned long long) (k->ret_raw & wmask(d->w)), k->ret_s, (unsigned long long) k->now);
	}
	return 0;
}

#define ST_T signed char
#define ST_UT unsigned char
#define ST_WT long
#define ST_N s8
#define ST_NAME "signed char"
#define ST_W 1
#define ST_SIGNED 1
#include "uatomic_seq_tmpl.h"

#define ST_T unsigned char
#define ST_UT unsigned char
#define ST_WT unsigned long
#define ST_N u8
#define ST_NAME "unsigned char"
#define ST_W 1
#define ST_SIGNED 0
#include "uatomic_seq_tmpl.h"

#define ST_T short
#define ST_UT unsigned short
#define ST_WT long
#define ST_N s16
#define ST_NAME "short"
#define ST_W 2
#define ST_SIGNED 1
#include "uatomic_seq_tmpl.h"

#define ST_T unsigned short
#define ST_UT unsigned short
#define ST_WT unsigned long
#define ST_N u16
#define ST_NAME "unsigned short"
#define ST_W 2
#define ST_SIGNED 0
#include "uatomic_seq_tmpl.h"

#define ST_T int
#define ST_UT unsigned int
#define ST_WT long
#define ST_N s32
#define ST_NAME "int"
#define ST_W 4
#define ST_SIGNED 1
#include "uatomic_seq_tmpl.h"

#define ST_T unsigned int
#define ST_UT unsigned int
#define ST_WT unsigned long
#define ST_N u32
#define ST_NAME "unsigned int"
#define ST_W 4
#define ST_SIGNED 0
#include "uatomic_seq_tmpl.h"

#define ST_T long
#define ST_UT unsigned long
#define ST_WT long
#define ST_N s64
#define ST_NAME "long"
#define ST_W 8
#define ST_SIGNED 1
#include "uatomic_seq_tmpl.h"

#define ST_T unsigned long
#define ST_UT unsigned long
#define ST_WT unsigned long
#define ST_N u64
#define ST_NAME "unsigned long"
#define ST_W 8
#define ST_SIGNED 0
#include "uatomic_seq_tmpl.h"

struct seq_type {
	const char *name;
	int w, sgn;
	const struct seq_variant *tab;
	int ntab;
};
#define SEQ_TYPE(N, nm, w, s) { nm, w, s, seq_tab_##N, (int) (sizeof(seq_tab_##N) / sizeof(seq_tab_##N[0])) }
static const struct seq_type seq_types[] = {
	SEQ_TYPE(s8, "signed char", 1, 1), SEQ_TYPE(u8, "unsigned char", 1, 0),
	SEQ_TYPE(s16, "short", 2, 1), SEQ_TYPE(u16, "unsigned short", 2, 0),
	SEQ_TYPE(s32, "int", 4, 1), SEQ_TYPE(u32, "unsigned int", 4, 0),
	SEQ_TYPE(s64, "long", 8, 1), SEQ_TYPE(u64, "unsigned long", 8, 0),
};
#define N_SEQ_TYPES ((int) (sizeof(seq_types) / sizeof(seq_types[0])))

static int cmp_u64(const void *a, const void *b)
{
	uint64_t x = *(const uint64_t *) a, y = *(const uint64_t *) b;
	return x < y ? -1 : x > y;
}

/* operand classes: 0, 1, -1, MIN, MAX, MAX+1 truncated, single bits, width boundaries, random */
static size_t gen_vals(int w, uint64_t *out, size_t cap, struct vp_rng *r, int nrand)
{
	const int bits = 8 * w;
	const uint64_t m = wmask(w), hi = 1ULL << (bits - 1);
	size_t n = 0;
#define PUT(x) do { if (n < cap) out[n++] = (uint64_t) (x) & m; } while (0)
	PUT(0); PUT(1); PUT(2); PUT(3); PUT(m); PUT(m - 1); PUT(m - 2);
	PUT(hi); PUT(hi - 1); PUT(hi + 1); PUT(hi >> 1); PUT(hi | (hi >> 1));
	PUT(0x5555555555555555ULL); PUT(0xaaaaaaaaaaaaaaaaULL);
	for (int k = 0; k < bits; k++) {
		PUT(1ULL << k);
		PUT(~(1ULL << k));
	}
	for (int k = 8; k < bits; k *= 2) {
		PUT((1ULL << k) - 1); PUT((1ULL << k) + 1);
		PUT(0 - (1ULL << k)); PUT(0 - (1ULL << k) - 1); PUT(0 - (1ULL << k) + 1);
	}
	for (int i = 0; i < nrand; i++) {
		uint64_t x = vp_rand(r);
		if (i & 1)
			x >>= vp_rand_n(r, (uint32_t) 64);	/* random magnitude */
		PUT(x);
	}
#undef PUT
	qsort(out, n, sizeof(out[0]), cmp_u64);
	size_t k = 0;
	for (size_t i = 0; i < n; i++)
		if (!k || out[k - 1] != out[i])
			out[k++] = out[i];
	return k;
}

static void *pack_vals(int w, const uint64_t *v, size_t n)
{
	unsigned char *buf = malloc(n * (size_t) w + 8);
	if (!buf)
		abort();
	for (size_t i = 0; i < n; i++)
		wr_le(buf + i * (size_t) w, w, v[i]);
	return buf;
}

static int variant_is_base(const struct seq_variant *v)
{
	return strchr(v->name, '/') == NULL;
}

static void seq_fill(struct seq_ctx *c, int fill, unsigned salt)
{
	for (unsigned i = 0; i < SEQ_IMG; i++) {
		unsigned char b;
		if (fill == 1)
			b = 0x00;
		else if (fill == 2)
			b = 0xff;
		else {
			uint64_t h = ((uint64_t) i + 1) * 0x9e3779b97f4a7c15ULL ^ ((uint64_t) salt + 17) * 0xc2b2ae3d27d4eb4fULL;
			h ^= h >> 29;
			b = (unsigned char) (h >> 24);
			if (b == 0x00 || b == 0xff)
				b = 0x5a;
		}
		c->real[i] = c->ref[i] = b;
	}
}

static void seq_run_type(struct seq_ctx *c, const struct seq_type *t, int nrand, int w2_operands)
{
	uint64_t vals[2048];
	size_t nv = gen_vals(t->w, vals, sizeof(vals) / sizeof(vals[0]), &c->rng, nrand);
	void *pv = pack_vals(t->w, vals, nv);
	const char sc = t->sgn ? 's' : 'u';

	/* operand classes x operand classes, every variant, every aligned offset, 3 canary fills */
	for (int fill = 0; fill < 3 && c->fails < SEQ_MAX_FAILS; fill++) {
		for (unsigned off = 0; off < SEQ_WIN && c->fails < SEQ_MAX_FAILS; off += (unsigned) t->w) {
			seq_fill(c, fill, off * 8 + (unsigned) t->w);
			for (int v = 0; v < t->ntab; v++) {
				const struct seq_variant *var = &t->tab[v];
				if (seq_skip(c, var->base, t->w))
					continue;
				if (fill == 0 && off == (unsigned) t->w && !strcmp(var->base, c->sample_op[c->nsampled % 4]) &&
				    variant_is_base(var) && c->nsampled < 4 && (int) (t - seq_types) == 2 * c->nsampled + 1) {
					c->want_sample = 1;
					c->nsampled++;
				}
				var->fn(c, off, pv, nv, pv, var->uses_a ? nv : 1);
				c->want_sample = 0;
				if (fill == 0 && off == 0)
					vp_sig_add("seq:%s:w%d:%c", var->name, t->w, sc);
			}
			if (fill == 0)
				vp_sig_add("seq-off:w%d:%c:off%u", t->w, sc, off);
		}
	}
	free(pv);

	/* exhaustive: all (old, operand) pairs for width 1, all olds x several operands for width 2 */
	if (t->w <= 2 && c->fails < SEQ_MAX_FAILS) {
		size_t nold = t->w == 1 ? 256 : 65536, nop;
		uint64_t *all = malloc(nold * sizeof(uint64_t));
		uint64_t ops[512];
		for (size_t i = 0; i < nold; i++)
			all[i] = i;
		void *pold = pack_vals(t->w, all, nold), *pop;
		if (t->w == 1) {
			pop = pack_vals(1, all, 256);
			nop = 256;
		} else {
			static const uint64_t fixed[] = { 1, 0xffff, 0x8000, 0x7fff, 0x00ff, 0x0100, 0xff00, 0 };
			nop = 0;
			for (int i = 0; i < w2_operands && nop < sizeof(ops) / sizeof(ops[0]); i++) {
				if (i < 8)
					ops[nop++] = fixed[i];
				else if (i < 24)
					ops[nop++] = 1ULL << (i - 8);
				else
					ops[nop++] = vp_rand(&c->rng) & 0xffff;
			}
			pop = pack_vals(2, ops, nop);
		}
		for (unsigned off = 0; off < SEQ_WIN && c->fails < SEQ_MAX_FAILS; off += (unsigned) t->w) {
			seq_fill(c, 0, 1000 + off * 8 + (unsigned) t->w);
			for (int v = 0; v < t->ntab; v++) {
				const struct seq_variant *var = &t->tab[v];
				if (!variant_is_base(var) || seq_skip(c, var->base, t->w))
					continue;
				var->fn(c, off, pold, nold, pop, var->uses_a ? nop : 1);
				if (off == 0)
					vp_sig_add("seq-exhaustive:%s:w%d:%c", var->name, t->w, sc);
			}
		}
		free(all);
		free(pold);
		free(pop);
	}
}

/* same operand classes, plain store of `old` directly in front of the operation (no compiler
 * barrier).  Runs after all other passes so that its findings never displace theirs. */
static void seq_run_type_nobar(struct seq_ctx *c, const struct seq_type *t, int nrand)
{
	uint64_t vals[2048];
	size_t nv = gen_vals(t->w, vals, sizeof(vals) / sizeof(vals[0]), &c->rng, nrand);
	void *pv = pack_vals(t->w, vals, nv);
	const char sc = t->sgn ? 's' : 'u';
	unsigned fails_before = c->fails;
	for (unsigned off = 0; off < SEQ_WIN; off += SEQ_WIN - (unsigned) t->w) {
		seq_fill(c, 0, 500 + off * 8 + (unsigned) t->w);
		for (int v = 0; v < t->ntab; v++) {
			const struct seq_variant *var = &t->tab[v];
			if (!var->fn_nobar)
				continue;
			var->fn_nobar(c, off, pv, nv, pv, var->uses_a ? nv : 1);
			if (off == 0)
				vp_sig_add("seq-nobarrier:%s:w%d:%c", var->name, t->w, sc);
		}
	}
	c->fails_nobar += c->fails - fails_before;
	c->fails = fails_before;
	free(pv);
}

/* random programs: operations of all types / offsets applied one after the other to the
 * same window (no re-initialisation between steps): neighbours hold live data of other widths */
static void seq_run_prog(struct seq_ctx *c, long steps)
{
	for (long s = 0; s < steps && c->fails < SEQ_MAX_FAILS; s++) {
		if ((s & 63) == 0) {
			for (unsigned i = 0; i < SEQ_IMG; i++)
				c->real[i] = c->ref[i] = (unsigned char) vp_rand(&c->rng);
		}
		const struct seq_type *t = &seq_types[vp_rand_n(&c->rng, (uint32_t) N_SEQ_TYPES)];
		unsigned off = vp_rand_n(&c->rng, (uint32_t) (SEQ_WIN / t->w)) * (unsigned) t->w;
		const struct seq_variant *var = &t->tab[vp_rand_n(&c->rng, (uint32_t) t->ntab)];
		uint64_t old, a;
		uint64_t x = vp_rand(&c->rng);
		old = rd_le(c->ref + SEQ_GUARD + off, t->w);
		switch (x & 3) {
		case 0: a = vp_rand(&c->rng); break;
		case 1: a = old; break;				/* cmpxchg hits, x - x, x & x */
		case 2: a = (0 - old); break;
		default: a = vp_rand(&c->rng) >> vp_rand_n(&c->rng, 64); break;
		}
		a &= wmask(t->w);
		if (seq_skip(c, var->base, t->w))
			continue;
		wr_le(c->tmp_old, t->w, old);
		wr_le(c->tmp_a, t->w, a);
		var->fn(c, off, c->tmp_old, 1, c->tmp_a, 1);
		if (s < 4096)
			vp_sig_add("seq-prog:%s:w%d", var->base, t->w);
	}
}

static void run_seq(void)
{
	struct seq_ctx c;
	memset(&c, 0, sizeof(c));
	c.real = aligned_alloc(64, 64);
	c.ref = aligned_alloc(64, 64);
	c.tmp_old = malloc(16);
	c.tmp_a = malloc(16);
	if (!c.real || !c.ref || !c.tmp_old || !c.tmp_a)
		abort();
	vp_rng_init(&c.rng, vp_opt.seed, 0x736571, 0);
	c.sample_op[0] = "add_return"; c.sample_op[1] = "sub_return";
	c.sample_op[2] = "cmpxchg"; c.sample_op[3] = "xchg";
	int nrand = (int) vp_arg_long("seq-rand", 16);
	int w2ops = (int) vp_arg_long("w2-operands", 8);
	long steps = vp_arg_long("prog-steps", 200000);
	for (int i = 0; i < N_SEQ_TYPES; i++)
		seq_run_type(&c, &seq_types[i], nrand, w2ops);
	seq_run_prog(&c, steps);
	for (int i = 0; i < N_SEQ_TYPES; i++)
		seq_run_type_nobar(&c, &seq_types[i], nrand);
	vp_counter_add("evaluations", c.evals);
	vp_counter_add("nontrivial", c.nontrivial);
	vp_counter_add("seq_cases", c.evals);
	vp_note("seq impl=%s: %llu (operation, width, offset, old, operand) cases compared with the plain-C reference, %u mismatches (+%u in the no-barrier pass)",
		IMPL_NAME, (unsigned long long) c.evals, c.fails, c.fails_nobar);
	free(c.real);
	free(c.ref);
}

/* ====================================================================== (ii) concurrent */

#define MAX_THR 16
#define CONC_MAX_LOGGED (4L << 20)	/* logged return values per thread and test */

struct conc_res {
	uint64_t v[8];
	uint64_t *arr;
	char pad[128 - 72];
} __attribute__((aligned(128)));

struct conc_plain {
	uint64_t a, b;
} __attribute__((aligned(128)));

struct conc_ctx {
	unsigned char *line;		/* 64-byte aligned line inside a canary-filled area */
	unsigned off;
	int nthr;
	long n;
	uint64_t seed;
	int phase;
	int nslots;
	int oversub;
	int abort;
	uint64_t lock_timeout_cycles;
	struct conc_plain *plain;
	struct conc_res res[MAX_THR];
};

typedef void (*conc_fn)(struct conc_ctx *cc, int tid);
struct conc_type {
	const char *name;
	int w, sgn;
	conc_fn sum, ticket, bits, xchg, cmpxchg_inc, neigh, lock, tear;
};

static inline uint64_t conc_h1(uint64_t x)
{
	x ^= x >> 33; x *= 0xff51afd7ed558ccdULL; x ^= x >> 33; x *= 0xc4ceb9fe1a85ec53ULL; x ^= x >> 33;
	return x;
}
static inline uint64_t conc_h2(uint64_t x)
{
	x += 0x9e3779b97f4a7c15ULL;
	x = (x ^ (x >> 30)) * 0xbf58476d1ce4e5b9ULL;
	x = (x ^ (x >> 27)) * 0x94d049bb133111ebULL;
	return x ^ (x >> 31);
}
static inline void conc_pause_noclobber(void)
{
	__asm__ __volatile__("pause");
}

#define CT_T signed char
#define CT_UT unsigned char
#define CT_N s8
#define CT_NAME "signed char"
#define CT_W 1
#define CT_SIGNED 1
#include "uatomic_conc_tmpl.h"

#define CT_T unsigned char
#define CT_UT unsigned char
#define CT_N u8
#define CT_NAME "unsigned char"
#define CT_W 1
#define CT_SIGNED 0
#include "uatomic_conc_tmpl.h"

#define CT_T short
#define CT_UT unsigned short
#define CT_N s16
#define CT_NAME "short"
#define CT_W 2
#define CT_SIGNED 1
#include "uatomic_conc_tmpl.h"

#define CT_T unsigned short
#define CT_UT unsigned short
#define CT_N u16
#define CT_NAME "unsigned short"
#define CT_W 2
#define CT_SIGNED 0
#include "uatomic_conc_tmpl.h"

#define CT_T int
#define CT_UT unsigned int
#define CT_N s32
#define CT_NAME "int"
#define CT_W 4
#define CT_SIGNED 1
#include "uatomic_conc_tmpl.h"

#define CT_T unsigned int
#define CT_UT unsigned int
#define CT_N u32
#define CT_NAME "unsigned int"
#define CT_W 4
#define CT_SIGNED 0
#include "uatomic_conc_tmpl.h"

#define CT_T long
#define CT_UT unsigned long
#define CT_N s64
#define CT_NAME "long"
#define CT_W 8
#define CT_SIGNED 1
#include "uatomic_conc_tmpl.h"

#define CT_T unsigned long
#define CT_UT unsigned long
#define CT_N u64
#define CT_NAME "unsigned long"
#define CT_W 8
#define CT_SIGNED 0
#include "uatomic_conc_tmpl.h"

static const struct conc_type *conc_types[] = {
	&conc_type_s8, &conc_type_u8, &conc_type_s16, &conc_type_u16,
	&conc_type_s32, &conc_type_u32, &conc_type_s64, &conc_type_u64,
};
#define N_CONC_TYPES ((int) (sizeof(conc_types) / sizeof(conc_types[0])))

/* ---- job dispatch: main thread is worker 0 */
static struct {
	conc_fn fn;
	struct conc_ctx *cc;
	int quit;
} g_job;
static struct vp_barrier g_bar;
static pthread_t g_workers[MAX_THR];
static int g_nthr;

static void *conc_worker(void *arg)
{
	int tid = (int) (intptr_t) arg;
	vp_pin_cpu(vp_cpus[tid % vp_ncpu]);
	for (;;) {
		vp_barrier_wait(&g_bar);
		if (g_job.quit)
			break;
		g_job.fn(g_job.cc, tid);
		vp_barrier_wait(&g_bar);
	}
	return NULL;
}
static void conc_run(conc_fn fn, struct conc_ctx *cc)
{
	g_job.fn = fn;
	g_job.cc = cc;
	vp_barrier_wait(&g_bar);
	fn(cc, 0);
	vp_barrier_wait(&g_bar);
}

#define AREA_SZ 192
static unsigned char *g_area, g_area_ref[AREA_SZ];
static uint64_t g_conc_evals, g_conc_nontrivial, g_conc_ops;

static void area_prepare(struct conc_ctx *cc, struct vp_rng *r)
{
	for (int i = 0; i < AREA_SZ; i++) {
		unsigned char b = (unsigned char) vp_rand(r);
		if (b == 0 || b == 0xff)
			b = 0xa5;
		g_area[i] = g_area_ref[i] = b;
	}
	cc->line = g_area + 64;
	cc->abort = 0;
	cc->phase = 0;
	memset(cc->res, 0, sizeof(cc->res));
	cc->plain->a = cc->plain->b = 0;
}
/* write the (expected) target bytes into both images */
static void area_set(struct conc_ctx *cc, unsigned off, int w, uint64_t v)
{
	wr_le(g_area + 64 + off, w, v);
	wr_le(g_area_ref + 64 + off, w, v);
}
static void area_expect(unsigned off, int w, uint64_t v)
{
	wr_le(g_area_ref + 64 + off, w, v);
}
/* compares the whole area with the expected image; reports target and neighbour damage */
static int area_check(const char *family, const char *keyop, const struct conc_type *t, unsigned off, int len,
		      const char *detail)
{
	if (!memcmp(g_area, g_area_ref, AREA_SZ))
		return 0;
	char key[160], h1[200], h2[200];
	int nb = 0, tg = 0;
	for (int i = 0; i < AREA_SZ; i++) {
		if (g_area[i] == g_area_ref[i])
			continue;
		if (i >= 64 + (int) off && i < 64 + (int) off + len)
			tg = 1;
		else
			nb = 1;
	}
	hex(h1, sizeof(h1), g_area + 64, 64);
	hex(h2, sizeof(h2), g_area_ref + 64, 64);
	if (tg) {
		snprintf(key, sizeof(key), "uatomic:lost-update:%s:w%d", keyop, t->w);
		vp_violation(key, "impl=%s family=%s type=%s threads=%d: final memory differs from the value conservation prescribes (%s); line real=%s expected=%s",
			     IMPL_NAME, family, t->name, g_nthr, detail, h1, h2);
	}
	if (nb) {
		snprintf(key, sizeof(key), "uatomic:%s:w%d:neighbour-clobbered", keyop, t->w);
		vp_violation(key, "impl=%s family=%s type=%s threads=%d offset-in-line=%u: bytes outside the %d-byte target changed; line real=%s expected=%s",
			     IMPL_NAME, family, t->name, g_nthr, off, len, h1, h2);
	}
	return 1;
}

static unsigned pick_off(struct vp_rng *r, int align)
{
	return vp_rand_n(r, (uint32_t) (64 / align)) * (unsigned) align;
}

static long round_up(long n, long m)
{
	return (n + m - 1) / m * m;
}

/* histogram oracle shared by tickets and cmpxchg-increment.  vals are w-bit patterns. */
static int check_unique(struct conc_ctx *cc, const struct conc_type *t, long n, uint64_t first, int descending,
			const char *op, const char *family)
{
	const uint64_t m = wmask(t->w), total = (uint64_t) n * (uint64_t) cc->nthr;
	const uint64_t space = t->w <= 2 ? (m + 1) : total;
	uint32_t *hist = calloc(space, sizeof(uint32_t));
	char key[160];
	int bad = 0;
	if (!hist)
		abort();
	for (int th = 0; th < cc->nthr && !bad; th++) {
		for (long i = 0; i < n; i++) {
			uint64_t v = cc->res[th].arr[i] & m;
			uint64_t idx = t->w <= 2 ? v : (descending ? (first - v) & m : (v - first) & m);
			if (idx >= space) {
				snprintf(key, sizeof(key), "uatomic:non-unique-value:%s:w%d", op, t->w);
				vp_violation(key, "impl=%s family=%s type=%s threads=%d: thread %d obtained value 0x%llx outside the range [0x%llx %s %llu) that %llu atomic operations can produce",
					     IMPL_NAME, family, t->name, cc->nthr, th, (unsigned long long) v,
					     (unsigned long long) first, descending ? "-" : "+",
					     (unsigned long long) total, (unsigned long long) total);
				bad = 1;
				break;
			}
			hist[idx]++;
		}
	}
	const uint32_t want = t->w <= 2 ? (uint32_t) (total / space) : 1;
	for (uint64_t i = 0; i < space && !bad; i++) {
		if (hist[i] != want) {
			snprintf(key, sizeof(key), "uatomic:non-unique-value:%s:w%d", op, t->w);
			vp_violation(key, "impl=%s family=%s type=%s threads=%d: value #%llu (relative to start 0x%llx) was obtained %u times by %llu atomic %s operations, expected exactly %u",
				     IMPL_NAME, family, t->name, cc->nthr, (unsigned long long) i,
				     (unsigned long long) first, hist[i], (unsigned long long) total, op, want);
			bad = 1;
		}
	}
	free(hist);
	g_conc_evals += total;
	g_conc_nontrivial += total;
	return bad;
}

static const char *neigh_opname[13] = { "set", "xchg", "cmpxchg", "cmpxchg-fail", "add_return", "sub_return",
	"add", "sub", "inc", "dec", "and", "or", "read" };

static void run_conc_type(struct conc_ctx *cc, const struct conc_type *t, struct vp_rng *r, long nops)
{
	const uint64_t m = wmask(t->w), hi = 1ULL << (8 * t->w - 1);
	const char sc = t->sgn ? 's' : 'u';
	char key[160], detail[256];
	const int N = cc->nthr;

	/* ---------------- sum */
	{
		area_prepare(cc, r);
		unsigned off = pick_off(r, t->w);
		uint64_t init = vp_rand(r) & m, sum = init;
		cc->off = off; cc->n = nops;
		area_set(cc, off, t->w, init);
		conc_run(t->sum, cc);
		for (int i = 0; i < N; i++)
			sum += cc->res[i].v[0];
		area_expect(off, t->w, sum & m);
		snprintf(detail, sizeof(detail), "initial 0x%llx + sum of all threads' deltas = 0x%llx (mod 2^%d), %ld ops/thread mixing add/sub/inc/dec/add_return/sub_return",
			 (unsigned long long) init, (unsigned long long) (sum & m), 8 * t->w, nops);
		area_check("sum", "add-sub-mix", t, off, t->w, detail);
		g_conc_evals += 1; g_conc_nontrivial += 1; g_conc_ops += (uint64_t) N * (uint64_t) nops;
		vp_sig_add("conc:sum:w%d:%c:thr%d", t->w, sc, N);
	}
	/* ---------------- tickets (add_return / sub_return by 1) */
	{
		/* every returned value is logged: bound the log (memory) in the thorough tier */
		long nlog = nops > CONC_MAX_LOGGED ? CONC_MAX_LOGGED : nops;
		long n = t->w == 1 ? round_up(nlog, 256) : t->w == 2 ? round_up(nlog, 65536) : nlog;
		uint64_t total = (uint64_t) n * (uint64_t) N;
		area_prepare(cc, r);
		unsigned off = pick_off(r, t->w);
		/* start so that the counter crosses the unsigned wrap (unsigned) or MAX -> MIN (signed) */
		uint64_t init = ((t->sgn ? hi : 0) - total / 2) & m;
		cc->off = off; cc->n = n;
		for (int i = 0; i < N; i++)
			cc->res[i].arr = malloc((size_t) n * sizeof(uint64_t));
		area_set(cc, off, t->w, init);
		cc->phase = 0;
		conc_run(t->ticket, cc);
		area_expect(off, t->w, (init + total) & m);
		snprintf(detail, sizeof(detail), "initial 0x%llx, %llu x add_return(+1)", (unsigned long long) init, (unsigned long long) total);
		int bad = area_check("ticket", "add_return", t, off, t->w, detail);
		bad |= check_unique(cc, t, n, (init + 1) & m, 0, "add_return", "ticket");
		if (!bad && t->w == 4 && t->sgn)
			vp_sample_add("conc ticket impl=%s: %d threads x %ld uatomic_add_return(&int, 1) from 0x%llx across INT_MAX: all %llu returned values distinct and contiguous, final value 0x%llx",
				      IMPL_NAME, N, n, (unsigned long long) init, (unsigned long long) total,
				      (unsigned long long) ((init + total) & m));
		/* phase 1: back down with sub_return */
		cc->phase = 1;
		conc_run(t->ticket, cc);
		area_expect(off, t->w, init);
		snprintf(detail, sizeof(detail), "%llu x sub_return(1) back to 0x%llx", (unsigned long long) total, (unsigned long long) init);
		area_check("ticket", "sub_return", t, off, t->w, detail);
		check_unique(cc, t, n, (init + total - 1) & m, 1, "sub_return", "ticket");
		for (int i = 0; i < N; i++) {
			free(cc->res[i].arr);
			cc->res[i].arr = NULL;
		}
		g_conc_ops += 2 * total;
		vp_sig_add("conc:ticket-add_return:w%d:%c:thr%d", t->w, sc, N);
		vp_sig_add("conc:ticket-sub_return:w%d:%c:thr%d", t->w, sc, N);
	}
	/* ---------------- bit ownership under or / and */
	{
		area_prepare(cc, r);
		unsigned off = pick_off(r, t->w);
		int nown = N < 8 * t->w ? N : 8 * t->w;
		cc->off = off; cc->n = nops;
		for (int i = 0; i < N; i++) {
			uint64_t own = 0;
			if (i < nown)
				for (int b = i; b < 8 * t->w; b += nown)
					own |= 1ULL << b;
			cc->res[i].v[7] = own;
		}
		area_set(cc, off, t->w, 0);
		conc_run(t->bits, cc);
		uint64_t expect = 0, checks = 0;
		for (int i = 0; i < N; i++) {
			expect |= cc->res[i].v[0];
			checks += cc->res[i].v[1];
			if (cc->res[i].v[5]) {
				snprintf(key, sizeof(key), "uatomic:lost-update:or-and:w%d", t->w);
				vp_violation(key, "impl=%s family=bits type=%s threads=%d: thread %d (sole writer of bits 0x%llx) read 0x%llx at its op #%llu but its own bits should be 0x%llx: a concurrent or/and of another thread overwrote them",
					     IMPL_NAME, t->name, N, i, (unsigned long long) cc->res[i].v[7],
					     (unsigned long long) cc->res[i].v[3], (unsigned long long) cc->res[i].v[2],
					     (unsigned long long) cc->res[i].v[4]);
			}
		}
		area_expect(off, t->w, expect & m);
		snprintf(detail, sizeof(detail), "union of the owners' final bit states = 0x%llx", (unsigned long long) (expect & m));
		area_check("bits", "or-and", t, off, t->w, detail);
		g_conc_evals += checks + 1; g_conc_nontrivial += checks + 1; g_conc_ops += (uint64_t) N * (uint64_t) nops;
		vp_sig_add("conc:bits-or-and:w%d:%c:thr%d", t->w, sc, N);
	}
	/* ---------------- xchg token conservation */
	{
		area_prepare(cc, r);
		unsigned off = pick_off(r, t->w);
		cc->off = off; cc->n = nops;
		area_set(cc, off, t->w, 0);
		conc_run(t->xchg, cc);
		uint64_t fin = rd_le(g_area + 64 + off, t->w);
		uint64_t in1 = conc_h1(0), in2 = conc_h2(0), out1 = conc_h1(fin), out2 = conc_h2(fin);
		for (int i = 0; i < N; i++) {
			in1 += cc->res[i].v[0]; in2 += cc->res[i].v[1];
			out1 += cc->res[i].v[2]; out2 += cc->res[i].v[3];
		}
		if (in1 != out1 || in2 != out2) {
			snprintf(key, sizeof(key), "uatomic:token-conservation:xchg:w%d", t->w);
			vp_violation(key, "impl=%s family=xchg type=%s threads=%d ops/thread=%ld: multiset of values written by uatomic_xchg (+ initial 0) differs from multiset of values returned (+ final 0x%llx): hash sums written=(%016llx,%016llx) returned=(%016llx,%016llx): a token was duplicated or lost",
				     IMPL_NAME, t->name, N, nops, (unsigned long long) fin,
				     (unsigned long long) in1, (unsigned long long) in2,
				     (unsigned long long) out1, (unsigned long long) out2);
		}
		area_expect(off, t->w, fin);
		area_check("xchg", "xchg", t, off, t->w, "");
		g_conc_evals += 1; g_conc_nontrivial += 1; g_conc_ops += (uint64_t) N * (uint64_t) nops;
		vp_sig_add("conc:xchg-tokens:w%d:%c:thr%d", t->w, sc, N);
	}
	/* ---------------- cmpxchg increment loop */
	{
		long nlog = nops / 2 > CONC_MAX_LOGGED ? CONC_MAX_LOGGED : nops / 2;
		long n = t->w == 1 ? round_up(nlog, 256) : t->w == 2 ? round_up(nlog, 65536) : nlog;
		uint64_t total = (uint64_t) n * (uint64_t) N;
		area_prepare(cc, r);
		unsigned off = pick_off(r, t->w);
		uint64_t init = ((t->sgn ? hi : 0) - total / 3) & m;
		cc->off = off; cc->n = n;
		for (int i = 0; i < N; i++)
			cc->res[i].arr = malloc((size_t) n * sizeof(uint64_t));
		area_set(cc, off, t->w, init);
		conc_run(t->cmpxchg_inc, cc);
		uint64_t failures = 0;
		int aborted = 0;
		for (int i = 0; i < N; i++) {
			failures += cc->res[i].v[0];
			if (cc->res[i].v[1]) {
				aborted = 1;
				snprintf(key, sizeof(key), "uatomic:cmpxchg:w%d:spurious-failure", t->w);
				vp_violation(key, "impl=%s family=cmpxchg-inc type=%s threads=%d: thread %d saw %llu failed uatomic_cmpxchg() although all other threads together can succeed at most %llu times (last: expected old 0x%llx, returned 0x%llx)",
					     IMPL_NAME, t->name, N, i, (unsigned long long) cc->res[i].v[0],
					     (unsigned long long) total, (unsigned long long) cc->res[i].v[2],
					     (unsigned long long) cc->res[i].v[3]);
			}
		}
		if (!aborted && !VP_LOAD(cc->abort)) {
			area_expect(off, t->w, (init + total) & m);
			snprintf(detail, sizeof(detail), "initial 0x%llx + %llu successful cmpxchg(old, old+1)", (unsigned long long) init, (unsigned long long) total);
			area_check("cmpxchg-inc", "cmpxchg", t, off, t->w, detail);
			check_unique(cc, t, n, init, 0, "cmpxchg", "cmpxchg-inc");
		}
		for (int i = 0; i < N; i++) {
			free(cc->res[i].arr);
			cc->res[i].arr = NULL;
		}
		g_conc_ops += total + failures;
		vp_counter_add("cmpxchg_failures_contention", failures);
		vp_sig_add("conc:cmpxchg-inc:w%d:%c:thr%d:%s", t->w, sc, N, failures ? "contended" : "uncontended");
	}
	/* ---------------- neighbours inside one word */
	{
		int region = t->w == 8 ? 16 : 8;
		area_prepare(cc, r);
		unsigned off = pick_off(r, region);
		cc->off = off; cc->n = nops;
		cc->nslots = region / t->w;
		int active = N < cc->nslots ? N : cc->nslots;
		for (int i = 0; i < active; i++) {
			uint64_t init = vp_rand(r) & m;
			cc->res[i].v[6] = init;
			area_set(cc, off + (unsigned) (i * t->w), t->w, init);
		}
		conc_run(t->neigh, cc);
		uint64_t checks = 0;
		for (int i = 0; i < active; i++) {
			checks += cc->res[i].v[7];
			area_expect(off + (unsigned) (i * t->w), t->w, cc->res[i].v[0]);
			if (cc->res[i].v[1]) {
				unsigned op = (unsigned) cc->res[i].v[3];
				snprintf(key, sizeof(key), "uatomic:neighbour-interference:%s:w%d", neigh_opname[op % 13], t->w);
				vp_violation(key, "impl=%s family=neighbours type=%s: thread %d is the only writer of slot %d (byte offset %u of an aligned %d-byte region, %d threads on adjacent slots); its op #%llu (%s) %s 0x%llx, its own history prescribes 0x%llx",
					     IMPL_NAME, t->name, i, i, (unsigned) (i * t->w), region, active,
					     (unsigned long long) cc->res[i].v[2], neigh_opname[op % 13],
					     cc->res[i].v[1] == 1 ? "returned" : "left the slot (read back) at",
					     (unsigned long long) cc->res[i].v[4], (unsigned long long) cc->res[i].v[5]);
			}
		}
		if (memcmp(g_area, g_area_ref, AREA_SZ)) {
			char h1[200], h2[200];
			hex(h1, sizeof(h1), g_area + 64, 64);
			hex(h2, sizeof(h2), g_area_ref + 64, 64);
			snprintf(key, sizeof(key), "uatomic:neighbour-interference:final-image:w%d", t->w);
			vp_violation(key, "impl=%s family=neighbours type=%s region-offset=%u: final image differs from the owners' final values / untouched canaries; line real=%s expected=%s",
				     IMPL_NAME, t->name, off, h1, h2);
		}
		g_conc_evals += checks; g_conc_nontrivial += checks; g_conc_ops += checks;
		vp_sig_add("conc:neighbours:w%d:%c:slots%d:active%d", t->w, sc, cc->nslots, active);
	}
	/* ---------------- locks made of the full-barrier RMWs around plain data */
	{
		static const char *kind[3] = { "xchg", "cmpxchg", "add_return-sub_return" };
		long n = nops / 8 > 0 ? nops / 8 : 1;
		for (int ph = 0; ph < 3; ph++) {
			area_prepare(cc, r);
			unsigned off = pick_off(r, t->w);
			cc->off = off; cc->n = n; cc->phase = ph;
			area_set(cc, off, t->w, 0);
			conc_run(t->lock, cc);
			uint64_t bad = 0;
			int stuck = 0;
			for (int i = 0; i < N; i++) {
				bad += cc->res[i].v[0];
				stuck |= (int) cc->res[i].v[2];
			}
			if (stuck) {
				snprintf(key, sizeof(key), "uatomic:barrier:%s-lock:w%d:lock-stuck", kind[ph], t->w);
				vp_violation(key, "impl=%s family=lock type=%s threads=%d: lock word 0x%llx never became free for %.0f s although every holder releases it after two plain stores",
					     IMPL_NAME, t->name, N, (unsigned long long) rd_le(g_area + 64 + off, t->w),
					     (double) cc->lock_timeout_cycles / (vp_tsc_ghz > 0 ? vp_tsc_ghz * 1e9 : 2e9));
			} else {
				uint64_t want = (uint64_t) n * (uint64_t) N;
				if (bad || cc->plain->a != want || cc->plain->b != want) {
					snprintf(key, sizeof(key), "uatomic:barrier:%s-lock:w%d:mutual-exclusion-broken", kind[ph], t->w);
					vp_violation(key, "impl=%s family=lock type=%s threads=%d: plain counters protected by a %s lock ended at a=%llu b=%llu, expected %llu; %llu critical sections saw a != b (RMW not atomic, or not a full compiler+CPU barrier)",
						     IMPL_NAME, t->name, N, kind[ph], (unsigned long long) cc->plain->a,
						     (unsigned long long) cc->plain->b, (unsigned long long) want,
						     (unsigned long long) bad);
				}
				area_expect(off, t->w, 0);
				area_check("lock", kind[ph], t, off, t->w, "lock word must be 0 after all releases");
			}
			g_conc_evals += (uint64_t) n * (uint64_t) N;
			g_conc_nontrivial += (uint64_t) n * (uint64_t) N;
			g_conc_ops += 2 * (uint64_t) n * (uint64_t) N;
			vp_sig_add("conc:lock-%s:w%d:%c:thr%d", kind[ph], t->w, sc, N);
		}
	}
	/* ---------------- set / read tearing */
	if (t->w > 1) {
		area_prepare(cc, r);
		unsigned off = pick_off(r, t->w);
		cc->off = off; cc->n = nops;
		area_set(cc, off, t->w, 0);
		conc_run(t->tear, cc);
		uint64_t distinct = 0;
		for (int i = 1; i < N; i++) {
			distinct += cc->res[i].v[1];
			if (cc->res[i].v[0]) {
				snprintf(key, sizeof(key), "uatomic:torn-access:set-read:w%d", t->w);
				vp_violation(key, "impl=%s family=tear type=%s: reader %d obtained 0x%llx although the writer only stores values whose bytes are all equal",
					     IMPL_NAME, t->name, i, (unsigned long long) cc->res[i].v[2]);
			}
		}
		area_expect(off, t->w, rd_le(g_area + 64 + off, t->w));
		area_check("tear", "set", t, off, t->w, "");
		g_conc_evals += (uint64_t) (N - 1) * (uint64_t) nops;
		g_conc_nontrivial += distinct;
		vp_sig_add("conc:set-read-tearing:w%d:%c:thr%d", t->w, sc, N);
	}
}

static void run_conc(void)
{
	static struct conc_ctx cc;
	static struct conc_plain plain;
	struct vp_rng r;
	int nthr = (int) vp_arg_long("threads", vp_ncpu < MAX_THR ? vp_ncpu : MAX_THR);
	long nops = vp_arg_long("conc-ops", 200000);
	if (nthr < 2)
		nthr = 2;
	if (nthr > MAX_THR)
		nthr = MAX_THR;
	g_nthr = nthr;
	g_area = aligned_alloc(64, AREA_SZ);
	if (!g_area)
		abort();
	vp_rng_init(&r, vp_opt.seed, 0x636f6e63, 0);
	memset(&cc, 0, sizeof(cc));
	cc.nthr = nthr;
	cc.seed = vp_opt.seed;
	cc.plain = &plain;
	cc.oversub = nthr > vp_ncpu;
	cc.lock_timeout_cycles = (uint64_t) ((vp_tsc_ghz > 0 ? vp_tsc_ghz : 2.0) * 1e9 * (cc.oversub ? 60 : 15));
	if (cc.oversub)
		vp_note("conc: %d threads on %d CPUs (oversubscribed: spin loops yield)", nthr, vp_ncpu);
	vp_pin_cpu(vp_cpus[0]);
	vp_barrier_init(&g_bar, nthr);
	for (int i = 1; i < nthr; i++)
		pthread_create(&g_workers[i], NULL, conc_worker, (void *) (intptr_t) i);
	for (int i = 0; i < N_CONC_TYPES && vp_nviolations() < 40; i++) {
		cc.seed = vp_opt.seed * 131 + (uint64_t) i;
		run_conc_type(&cc, conc_types[i], &r, nops);
	}
	g_job.quit = 1;
	vp_barrier_wait(&g_bar);
	for (int i = 1; i < nthr; i++)
		pthread_join(g_workers[i], NULL);
	vp_counter_add("evaluations", g_conc_evals);
	vp_counter_add("nontrivial", g_conc_nontrivial);
	vp_counter_add("conc_rmw_ops", g_conc_ops);
	vp_note("conc impl=%s: %d pinned threads, %llu concurrent uatomic operations, %llu oracle decisions",
		IMPL_NAME, nthr, (unsigned long long) g_conc_ops, (unsigned long long) g_conc_evals);
	free(g_area);
}

/* ====================================================================== (iii) SB litmus */

union lit_dummy {
	unsigned char c;
	unsigned short s;
	unsigned int i;
	unsigned long l;
};
struct lit_cell {
	uint64_t v;
	union lit_dummy d;
	char pad[128 - 16];
} __attribute__((aligned(128)));

struct lit_shared {
	struct lit_cell ready[2], x[2], dummy[2], sink[2];
	uint8_t *res[2];
	unsigned jmask;
	uint64_t seed;
	uint64_t miss[2];
};

typedef void (*lit_fn)(struct lit_shared *s, int me, uint64_t r0, long nr);

/*
 * Thread `me` in round r:   x[me] = r;  <RMW on dummy[me]>;  v = x[!me];  res = (v == r)
 * Round r starts when both threads have published ready[] >= r, so x[!me] is r-1 or r.
 * Both res == 0 is the store-buffer outcome that a full barrier between the store and
 * the load forbids.
 */
#define LIT_DEF(name, DT, M, ST, RMW, LD)							\
static __attribute__((noinline)) void lit_##name(struct lit_shared *s, int me, uint64_t r0, long nr) \
{												\
	uint64_t *myx = &s->x[me].v, *otx = &s->x[!me].v;					\
	uint64_t *myrdy = &s->ready[me].v, *otrdy = &s->ready[!me].v;				\
	DT *d = &s->dummy[me].d.M;								\
	DT cur = *d;										\
	uint64_t acc = 0, miss = 0;								\
	uint8_t *res = s->res[me];								\
	struct vp_rng rng;									\
	vp_rng_init(&rng, s->seed, 0x6c6974, (uint64_t) me);					\
	(void) cur; (void) d; (void) miss;							\
	for (long k = 0; k < nr; k++) {								\
		const uint64_t r = r0 + (uint64_t) k;						\
		unsigned j = (unsigned) vp_rand(&rng) & s->jmask;				\
		uint64_t v;									\
		VP_STORE(*myrdy, r);								\
		while (VP_LOAD(*otrdy) < r)							\
			;									\
		while (j--)									\
			__asm__ __volatile__("");						\
		ST;										\
		RMW;										\
		LD;										\
		res[k] = (uint8_t) (v == r);							\
	}											\
	s->sink[me].v = acc;									\
	s->miss[me] = miss;									\
}

#define LIT_ST_RLX	uatomic_set(myx, r)
#define LIT_LD_RLX	v = uatomic_read(otx)
#define LIT_ST_PLAIN	*myx = r
#define LIT_LD_PLAIN	v = *otx

#define LIT_XCHG(DT)	acc += (uint64_t) uatomic_xchg(d, (DT) r)
#define LIT_CMPXCHG(DT)	do { DT o_ = uatomic_cmpxchg(d, cur, (DT) (cur + 1u));			\
			     if (o_ != cur) { miss++; cur = o_; } else cur = (DT) (cur + 1u); } while (0)
#define LIT_ADDR(DT)	acc += (uint64_t) uatomic_add_return(d, (DT) 1)
#define LIT_SUBR(DT)	acc += (uint64_t) uatomic_sub_return(d, (DT) 1)
/* operand shapes an implementation might special-case at compile time: literal 0, literal -1, a run-time
 * value; a successful cmpxchg that stores the value already there */
#define LIT_ADDR0(DT)	acc += (uint64_t) uatomic_add_return(d, 0)
#define LIT_SUBR0(DT)	acc += (uint64_t) uatomic_sub_return(d, 0)
#define LIT_ADDRM1(DT)	acc += (uint64_t) uatomic_add_return(d, -1)
#define LIT_ADDRV(DT)	acc += (uint64_t) uatomic_add_return(d, (DT) (r | 1))
#define LIT_CMPXCHG_SAME(DT) do { DT o_ = uatomic_cmpxchg(d, cur, cur);				\
			     if (o_ != cur) { miss++; cur = o_; } } while (0)

#define LIT_ALL_OPS(DT, M, W)									\
LIT_DEF(xchg_##W##_rlx, DT, M, LIT_ST_RLX, LIT_XCHG(DT), LIT_LD_RLX)				\
LIT_DEF(xchg_##W##_plain, DT, M, LIT_ST_PLAIN, LIT_XCHG(DT), LIT_LD_PLAIN)			\
LIT_DEF(cmpxchg_##W##_rlx, DT, M, LIT_ST_RLX, LIT_CMPXCHG(DT), LIT_LD_RLX)			\
LIT_DEF(cmpxchg_##W##_plain, DT, M, LIT_ST_PLAIN, LIT_CMPXCHG(DT), LIT_LD_PLAIN)		\
LIT_DEF(add_return_##W##_rlx, DT, M, LIT_ST_RLX, LIT_ADDR(DT), LIT_LD_RLX)			\
LIT_DEF(add_return_##W##_plain, DT, M, LIT_ST_PLAIN, LIT_ADDR(DT), LIT_LD_PLAIN)		\
LIT_DEF(sub_return_##W##_rlx, DT, M, LIT_ST_RLX, LIT_SUBR(DT), LIT_LD_RLX)			\
LIT_DEF(sub_return_##W##_plain, DT, M, LIT_ST_PLAIN, LIT_SUBR(DT), LIT_LD_PLAIN)		\
LIT_DEF(add_return0_##W##_rlx, DT, M, LIT_ST_RLX, LIT_ADDR0(DT), LIT_LD_RLX)			\
LIT_DEF(add_return0_##W##_plain, DT, M, LIT_ST_PLAIN, LIT_ADDR0(DT), LIT_LD_PLAIN)		\
LIT_DEF(sub_return0_##W##_rlx, DT, M, LIT_ST_RLX, LIT_SUBR0(DT), LIT_LD_RLX)			\
LIT_DEF(sub_return0_##W##_plain, DT, M, LIT_ST_PLAIN, LIT_SUBR0(DT), LIT_LD_PLAIN)		\
LIT_DEF(add_returnm1_##W##_rlx, DT, M, LIT_ST_RLX, LIT_ADDRM1(DT), LIT_LD_RLX)			\
LIT_DEF(add_returnv_##W##_plain, DT, M, LIT_ST_PLAIN, LIT_ADDRV(DT), LIT_LD_PLAIN)		\
LIT_DEF(cmpxchg_same_##W##_rlx, DT, M, LIT_ST_RLX, LIT_CMPXCHG_SAME(DT), LIT_LD_RLX)

LIT_ALL_OPS(unsigned char, c, 1)
LIT_ALL_OPS(unsigned short, s, 2)
LIT_ALL_OPS(unsigned int, i, 4)
LIT_ALL_OPS(unsigned long, l, 8)

/* positive control: nothing but a compiler barrier between the store and the load */
LIT_DEF(control_none, unsigned long, l, LIT_ST_RLX, cmm_barrier(), LIT_LD_RLX)
/* negative control: explicit cmm_smp_mb() */
LIT_DEF(control_mb, unsigned long, l, LIT_ST_RLX, cmm_smp_mb(), LIT_LD_RLX)

struct lit_cfg {
	const char *op;
	int w;
	const char *flavor;
	lit_fn fn;
};
#define LIT_CFGS(W)							\
	{ "xchg", W, "relaxed", lit_xchg_##W##_rlx },			\
	{ "xchg", W, "plain", lit_xchg_##W##_plain },			\
	{ "cmpxchg", W, "relaxed", lit_cmpxchg_##W##_rlx },		\
	{ "cmpxchg", W, "plain", lit_cmpxchg_##W##_plain },		\
	{ "add_return", W, "relaxed", lit_add_return_##W##_rlx },	\
	{ "add_return", W, "plain", lit_add_return_##W##_plain },	\
	{ "sub_return", W, "relaxed", lit_sub_return_##W##_rlx },	\
	{ "sub_return", W, "plain", lit_sub_return_##W##_plain },	\
	{ "add_return(literal 0)", W, "relaxed", lit_add_return0_##W##_rlx },	\
	{ "add_return(literal 0)", W, "plain", lit_add_return0_##W##_plain },	\
	{ "sub_return(literal 0)", W, "relaxed", lit_sub_return0_##W##_rlx },	\
	{ "sub_return(literal 0)", W, "plain", lit_sub_return0_##W##_plain },	\
	{ "add_return(literal -1)", W, "relaxed", lit_add_returnm1_##W##_rlx },	\
	{ "add_return(run-time operand)", W, "plain", lit_add_returnv_##W##_plain },	\
	{ "cmpxchg(same value)", W, "relaxed", lit_cmpxchg_same_##W##_rlx },
static const struct lit_cfg lit_cfgs[] = {
	LIT_CFGS(4) LIT_CFGS(8) LIT_CFGS(1) LIT_CFGS(2)
};

struct lit_arg {
	struct lit_shared *s;
	lit_fn fn;
	uint64_t r0;
	long nr;
};
static void *lit_partner(void *p)
{
	struct lit_arg *a = p;
	vp_pin_cpu(vp_cpus[1 % vp_ncpu]);
	a->fn(a->s, 1, a->r0, a->nr);
	return NULL;
}

struct lit_out { uint64_t n00, n01, n10, n11; };

static uint64_t g_lit_round = 1;

static struct lit_out lit_run(struct lit_shared *s, lit_fn fn, long nr)
{
	struct lit_arg a = { s, fn, g_lit_round, nr };
	struct lit_out o = { 0, 0, 0, 0 };
	pthread_t th;
	memset(s->res[0], 2, (size_t) nr);
	memset(s->res[1], 2, (size_t) nr);
	pthread_create(&th, NULL, lit_partner, &a);
	fn(s, 0, g_lit_round, nr);
	pthread_join(th, NULL);
	g_lit_round += (uint64_t) nr;
	for (long k = 0; k < nr; k++) {
		unsigned x = s->res[0][k], y = s->res[1][k];
		if (x == 0 && y == 0) o.n00++;
		else if (x == 0 && y == 1) o.n01++;
		else if (x == 1 && y == 0) o.n10++;
		else o.n11++;
	}
	return o;
}

static void run_litmus(void)
{
	long rounds = vp_arg_long("litmus-rounds", 250000);
	long ctl_rounds = vp_arg_long("control-rounds", 1000000);
	uint64_t evals = 0, nontrivial = 0;
	if (vp_ncpu < 2) {
		vp_inconclusive("sb-litmus: fewer than 2 CPUs, threads cannot run concurrently");
		vp_counter_add("evaluations", 0);
		vp_counter_add("nontrivial", 0);
		return;
	}
	struct lit_shared *s = aligned_alloc(128, sizeof(*s));
	long maxr = rounds > ctl_rounds ? rounds : ctl_rounds;
	if (!s)
		abort();
	memset(s, 0, sizeof(*s));
	s->res[0] = malloc((size_t) maxr);
	s->res[1] = malloc((size_t) maxr);
	s->seed = vp_opt.seed;
	vp_pin_cpu(vp_cpus[0]);

	/* calibration of the start jitter with the positive control */
	static const unsigned jm[] = { 0, 7, 31, 127, 511 };
	unsigned best = 31;
	uint64_t best00 = 0;
	for (unsigned i = 0; i < sizeof(jm) / sizeof(jm[0]); i++) {
		s->jmask = jm[i];
		struct lit_out o = lit_run(s, lit_control_none, 100000);
		if (o.n00 > best00) {
			best00 = o.n00;
			best = jm[i];
		}
	}
	s->jmask = best;
	struct lit_out ctl = lit_run(s, lit_control_none, ctl_rounds);
	struct lit_out cmb = lit_run(s, lit_control_mb, rounds);
	vp_counter_add("litmus_control_rounds", (uint64_t) ctl_rounds);
	vp_counter_add("litmus_control_00", ctl.n00);
	vp_note("sb-litmus impl=%s cpus=%d,%d jitter-mask=%u: positive control (store; compiler barrier; load) 0/0=%llu 0/1=%llu 1/0=%llu 1/1=%llu of %ld rounds; cmm_smp_mb() control 0/0=%llu of %ld",
		IMPL_NAME, vp_cpus[0], vp_cpus[1], best, (unsigned long long) ctl.n00, (unsigned long long) ctl.n01,
		(unsigned long long) ctl.n10, (unsigned long long) ctl.n11, ctl_rounds,
		(unsigned long long) cmb.n00, rounds);
	vp_sample_add("sb-litmus positive control impl=%s on CPUs %d/%d: without RMW the forbidden-for-barriers outcome r1==0&&r2==0 appeared %llu times in %ld rounds (the litmus can observe store buffering here)",
		      IMPL_NAME, vp_cpus[0], vp_cpus[1], (unsigned long long) ctl.n00, ctl_rounds);
	int have_teeth = ctl.n00 > 0;
	if (!have_teeth)
		vp_inconclusive("sb-litmus: positive control (no barrier) never showed the 0/0 outcome on this machine; absence of 0/0 around the RMWs proves nothing");
	else
		vp_sig_add("litmus:control:no-barrier:00-observed");
	if (cmb.n00) {
		vp_violation("uatomic:sb-litmus:cmm_smp_mb:forbidden-00",
			     "impl=%s: store; cmm_smp_mb(); load showed r1==0&&r2==0 %llu times in %ld rounds (harness or fence broken)",
			     IMPL_NAME, (unsigned long long) cmb.n00, rounds);
	}

	for (unsigned i = 0; i < sizeof(lit_cfgs) / sizeof(lit_cfgs[0]); i++) {
		const struct lit_cfg *c = &lit_cfgs[i];
		struct lit_out o = lit_run(s, c->fn, rounds);
		char key[160];
		if (o.n00) {
			snprintf(key, sizeof(key), "uatomic:sb-litmus:%s:forbidden-00", c->op);
			vp_violation(key, "impl=%s width=%d accesses=%s: T0{x=1; uatomic_%s(&private0); r1=y} || T1{y=1; uatomic_%s(&private1); r2=x} ended with r1==0&&r2==0 in %llu of %ld rounds (0/1=%llu 1/0=%llu 1/1=%llu): the RMW did not act as a full barrier; control without RMW: %llu of %ld",
				     IMPL_NAME, c->w, c->flavor, c->op, c->op, (unsigned long long) o.n00, rounds,
				     (unsigned long long) o.n01, (unsigned long long) o.n10, (unsigned long long) o.n11,
				     (unsigned long long) ctl.n00, ctl_rounds);
		}
		if (s->miss[0] || s->miss[1]) {
			snprintf(key, sizeof(key), "uatomic:cmpxchg:w%d:spurious-failure", c->w);
			vp_violation(key, "impl=%s litmus %s: uatomic_cmpxchg on a thread-private variable failed %llu times",
				     IMPL_NAME, c->op, (unsigned long long) (s->miss[0] + s->miss[1]));
		}
		if (have_teeth) {
			evals += (uint64_t) rounds;
			nontrivial += o.n11;
			vp_sig_add("litmus:%s:w%d:%s:seen%s%s%s", c->op, c->w, c->flavor,
				   o.n01 ? "-01" : "", o.n10 ? "-10" : "", o.n11 ? "-11" : "");
		}
		if (i == 0)
			vp_sample_add("sb-litmus impl=%s %s w%d %s accesses: %ld rounds, outcomes 0/0=%llu 0/1=%llu 1/0=%llu 1/1=%llu",
				      IMPL_NAME, c->op, c->w, c->flavor, rounds, (unsigned long long) o.n00,
				      (unsigned long long) o.n01, (unsigned long long) o.n10, (unsigned long long) o.n11);
	}
	/* the machine must still be able to show the effect at the end */
	struct lit_out ctl2 = lit_run(s, lit_control_none, ctl_rounds / 4 > 0 ? ctl_rounds / 4 : 1);
	vp_counter_add("litmus_control_00_after", ctl2.n00);
	if (have_teeth && !ctl2.n00)
		vp_inconclusive("sb-litmus: positive control showed 0/0 before but not after the measured runs");
	vp_counter_add("evaluations", evals);
	vp_counter_add("nontrivial", nontrivial);
	vp_counter_add("litmus_rounds", evals);
	free(s->res[0]);
	free(s->res[1]);
	free(s);
}

/* ====================================================================== main */

int main(int argc, char **argv)
{
	vp_init(argc, argv, "uatomic_" IMPL_NAME);
	const char *mode = vp_arg("mode", "all");
	int all = !strcmp(mode, "all");
	if (all || !strcmp(mode, "seq"))
		run_seq();
	if (all || !strcmp(mode, "conc"))
		run_conc();
	if (all || !strcmp(mode, "litmus"))
		run_litmus();
	return vp_finish();
}
