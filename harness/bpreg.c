/*
 * bpreg.c - C15, bp part: automatic registration on first use, removal at thread
 * exit, reader slots that never move while the registry grows (in place or by a
 * new chunk), slot reuse, registration with all signals blocked.
 *
 * Waves of threads make the live-thread count cross 8, 16, 32, ... while
 * updaters run grace periods with the poison oracle; at quiescent points
 * (all wave threads joined) the arena is inspected through the peek accessor
 * under the library's own registry lock.
 */
#include "vp.h"
#include "vp_flavor.h"
#include <sys/mman.h>

#if !VP_IS_BP
int main(void) { return 2; }
#else

#define ST_LIVE   0x4c495645ULL
#define ST_POISON 0xdeadbeefdeadbeefULL
#define NSLOTS 4
#define MAXT 600

struct obj { uint64_t id, state, sum; };
static struct obj *slots[NSLOTS];
static struct vp_quar quar;
static uint64_t next_id;
static int force_mremap_fail, reserve_after_chunk;
static uint64_t mremap_calls, mremap_forced_fail, mremap_inplace_ok, mmap_reserved;

static void obj_release(void *p)
{
	struct obj *o = p;
	if (o->state != ST_POISON)
		vp_violation("late-write-to-retired-object", "object %llu modified in quarantine", (unsigned long long) o->id);
	free(o);
}
static struct obj *obj_new(void)
{
	struct obj *o = malloc(sizeof(*o));
	o->id = __atomic_add_fetch(&next_id, 1, __ATOMIC_RELAXED);
	o->sum = o->id * 31 + 7;
	o->state = ST_LIVE;
	return o;
}
static void obj_retire(struct obj *o)
{
	o->state = ST_POISON;
#if VP_ASAN || VP_TSAN
	free(o);
#else
	vp_quar_put(&quar, o);
#endif
}
static inline void validate(struct obj *p, const char *where)
{
	if (p && (p->state != ST_LIVE || p->sum != p->id * 31 + 7))
		vp_violation("reader-saw-retired-object", "bp %s: object id=%llu state=%llx inside a section",
			     where, (unsigned long long) p->id, (unsigned long long) p->state);
}

/* ---- environment shims: address-space layout seen by the arena ---- */
void *__real_mremap(void *old, size_t olds, size_t news, int flags, ...);
void *__wrap_mremap(void *old, size_t olds, size_t news, int flags, ...)
{
	__atomic_fetch_add(&mremap_calls, 1, __ATOMIC_RELAXED);
	if (VP_LOAD(force_mremap_fail)) {
		__atomic_fetch_add(&mremap_forced_fail, 1, __ATOMIC_RELAXED);
		errno = ENOMEM;
		return MAP_FAILED;
	}
	void *r = __real_mremap(old, olds, news, flags);
	if (r != MAP_FAILED)
		__atomic_fetch_add(&mremap_inplace_ok, 1, __ATOMIC_RELAXED);
	return r;
}
void *__real_mmap(void *addr, size_t len, int prot, int flags, int fd, off_t off);
void *__wrap_mmap(void *addr, size_t len, int prot, int flags, int fd, off_t off)
{
	if (VP_LOAD(reserve_after_chunk) && !addr && fd == -1 && len < (1 << 20)) {
		/* leave free address space behind the mapping so that a later in-place
		 * mremap() can succeed (a legal kernel placement) */
		size_t pg = 4096, rl = (len + pg - 1) & ~(pg - 1);
		char *p = __real_mmap(NULL, rl * 64, prot, flags, fd, off);
		if (p != MAP_FAILED) {
			munmap(p + rl, rl * 63);
			__atomic_fetch_add(&mmap_reserved, 1, __ATOMIC_RELAXED);
			return p;
		}
	}
	return __real_mmap(addr, len, prot, flags, fd, off);
}

/* ---- slot ownership map (harness side) ---- */
#define MAPSZ 4096
static struct { void *slot; int owner; } smap[MAPSZ];
static pthread_mutex_t smap_lock = PTHREAD_MUTEX_INITIALIZER;
static void *distinct_slots[MAPSZ];
static int n_distinct;

static void smap_claim(void *slot, int owner)
{
	pthread_mutex_lock(&smap_lock);
	size_t h = ((uintptr_t) slot >> 6) % MAPSZ;
	for (int probe = 0; probe < MAPSZ; probe++, h = (h + 1) % MAPSZ) {
		if (smap[h].slot == slot) {
			if (smap[h].owner >= 0)
				vp_violation("bp-slot-owned-by-two-live-threads",
					     "reader slot %p handed to thread %d while live thread %d still owns it",
					     slot, owner, smap[h].owner);
			smap[h].owner = owner;
			break;
		}
		if (!smap[h].slot) {
			smap[h].slot = slot;
			smap[h].owner = owner;
			if (n_distinct < MAPSZ)
				distinct_slots[n_distinct++] = slot;
			break;
		}
	}
	pthread_mutex_unlock(&smap_lock);
}
static void smap_release(void *slot)
{
	pthread_mutex_lock(&smap_lock);
	size_t h = ((uintptr_t) slot >> 6) % MAPSZ;
	for (int probe = 0; probe < MAPSZ; probe++, h = (h + 1) % MAPSZ)
		if (smap[h].slot == slot) {
			smap[h].owner = -1;
			break;
		}
	pthread_mutex_unlock(&smap_lock);
}

/* ---- hook: registration / grace period must run with every signal blocked ---- */
static uint64_t mask_checks;
static int sig_first_lock;
static uint64_t sig_in_register_window;
static void bp_hook(int point, const void *ctx)
{
	(void) ctx;
	if (point == URCU_VP_BP_REGISTER_ENTRY && sig_first_lock) {
		/* deliver a signal exactly in the window between the "not registered" test of the
		 * read-side fast path and the masking of signals: the handler registers the thread */
		struct vp_thr *t = vp_self();
		if (vp_rand_n(&t->rng, 3) == 0) {
			__atomic_fetch_add(&sig_in_register_window, 1, __ATOMIC_RELAXED);
			pthread_kill(pthread_self(), SIGUSR2);
		}
	}
	if (point == URCU_VP_BP_ADD_THREAD || point == URCU_VP_GP_POST_FLIP || point == URCU_VP_GP_PRE_FLIP) {
		sigset_t cur;
		pthread_sigmask(SIG_SETMASK, NULL, &cur);
		__atomic_fetch_add(&mask_checks, 1, __ATOMIC_RELAXED);
		if (!sigismember(&cur, SIGUSR2) || !sigismember(&cur, SIGUSR1) || !sigismember(&cur, SIGALRM))
			vp_violation(point == URCU_VP_BP_ADD_THREAD ? "bp-registration-signals-not-blocked"
				     : "bp-synchronize-signals-not-blocked",
				     "signal mask does not block all signals at hook %s", vp_point_names[point]);
	}
}

/* ---- wave threads ---- */
static int wave_live_target;
static int wave_arrived, wave_go;
static uint64_t sections_total, handler_sections, slot_rechecks;

struct wt { pthread_t tid; int idx; struct vp_rng rng; void *slot; int in_first_lock; };
static struct wt wts[MAXT];
static __thread struct wt *me;

static void handler_section(void)
{
	struct wt *t = me;
	if (!t)
		return;
	int before = rcu_read_ongoing();	/* may auto-register from the handler */
	rcu_read_lock();
	struct obj *p = rcu_dereference(slots[0]);
	validate(p, "signal-handler");
	rcu_read_unlock();
	int after = rcu_read_ongoing();
	if (before != after)
		vp_violation("handler-changed-nesting", "bp: rcu_read_ongoing %d before, %d after handler", before, after);
	__atomic_fetch_add(&handler_sections, 1, __ATOMIC_RELAXED);
}

static void *wave_main(void *arg)
{
	struct wt *t = arg;
	me = t;
	vp_pin(t->idx);
	if (sig_first_lock)
		vp_chaos_register_self();
	/* first read-side call registers the thread */
	rcu_read_lock();
	t->slot = URCU_TLS(urcu_bp_reader);
	struct obj *p = rcu_dereference(slots[t->idx % NSLOTS]);
	validate(p, "first-section");
	rcu_read_unlock();
	if (!t->slot) {
		vp_violation("bp-not-registered-after-first-lock", "thread %d has no reader slot after rcu_read_lock()", t->idx);
		return NULL;
	}
	smap_claim(t->slot, t->idx);
	__atomic_add_fetch(&wave_arrived, 1, __ATOMIC_SEQ_CST);
	uint64_t secs = 0, rechecks = 0;
	for (;;) {
		int go = VP_LOAD(wave_go);
		rcu_read_lock();
		p = rcu_dereference(slots[vp_rand_n(&t->rng, NSLOTS)]);
		validate(p, "deref");
		if (vp_rand_n(&t->rng, 4) == 0)
			vp_delay_heavy(&t->rng);
		validate(p, "after-delay");
		rcu_read_unlock();
		secs++;
		if (URCU_TLS(urcu_bp_reader) != t->slot) {
			vp_violation("bp-reader-slot-moved", "thread %d: reader slot %p became %p while the registry grew",
				     t->idx, t->slot, (void *) URCU_TLS(urcu_bp_reader));
			break;
		}
		rechecks++;
		__atomic_store_n(&vp_self()->progress, vp_self()->progress + 1, __ATOMIC_RELAXED);
		if (go)
			break;
		if (vp_rand_n(&t->rng, 3))
			usleep(200 + vp_rand_n(&t->rng, 800));
	}
	__atomic_fetch_add(&sections_total, secs, __ATOMIC_RELAXED);
	__atomic_fetch_add(&slot_rechecks, rechecks, __ATOMIC_RELAXED);
	if (sig_first_lock)
		vp_chaos_unregister_self();
	smap_release(t->slot);
	return NULL;
}

/* ---- updaters ---- */
static int stop_updaters;
static uint64_t gp_calls;
static void *updater_main(void *arg)
{
	long idx = (long) arg;
	struct vp_rng r;
	vp_pin(MAXT + (int) idx);
	vp_rng_init(&r, vp_opt.seed, 0xbb, (uint64_t) idx);
	uint64_t n = 0;
	while (!VP_LOAD(stop_updaters)) {
		struct obj *nw = obj_new();
		struct obj *old = rcu_xchg_pointer(&slots[vp_rand_n(&r, NSLOTS)], nw);
		synchronize_rcu();
		if (old)
			obj_retire(old);
		n++;
		__atomic_store_n(&vp_self()->progress, vp_self()->progress + 1, __ATOMIC_RELAXED);
		if (vp_rand_n(&r, 4) == 0)
			usleep(vp_rand_n(&r, 300));
	}
	__atomic_fetch_add(&gp_calls, n, __ATOMIC_RELAXED);
	return NULL;
}

static int confirm_stuck(char *buf, size_t len)
{
	snprintf(buf, len, "hang:bpreg:arrived=%d/%d", VP_LOAD(wave_arrived), wave_live_target);
	return 1;
}

extern int vp_tun_bp_sleep_ms;
extern unsigned int vp_tun_qs_attempts;

int main(int argc, char **argv)
{
	vp_init(argc, argv, "bpreg");
	int max_live = (int) vp_arg_long("max-live", 260);
	int repeats = (int) vp_arg_long("repeats", 2);
	int n_upd = (int) vp_arg_long("updaters", 2);
	int growth = (int) vp_arg_long("growth", 0);	/* 0 natural, 1 force new chunk, 2 reserve (in place) */
	sig_first_lock = (int) vp_arg_long("sig", 1);
	int hold_ms = (int) vp_arg_long("hold-ms", 40);
	vp_tun_bp_sleep_ms = 1;
	vp_tun_qs_attempts = 10;
	if (max_live > MAXT - 8)
		max_live = MAXT - 8;
	VP_STORE(force_mremap_fail, growth == 1);
	VP_STORE(reserve_after_chunk, growth == 2);
	vp_user_hook = bp_hook;
	vp_point_set(URCU_VP_BP_ADD_THREAD, 0.3, VP_D_HEAVY);
	vp_point_set(URCU_VP_GP_REGISTRY_UNLOCKED, 0.05, VP_D_HEAVY);
	vp_point_set(URCU_VP_GP_POST_FLIP, 0.2, VP_D_HEAVY);
	vp_quar_init(&quar, 1 << 14, obj_release);
	for (int i = 0; i < NSLOTS; i++)
		slots[i] = obj_new();

	struct vp_bp_arena_info base, ai;
	vp_peek_bp_arena_snapshot(&base);

	pthread_t upd[8];
	for (long i = 0; i < n_upd; i++)
		pthread_create(&upd[i], NULL, updater_main, (void *) i);
	if (sig_first_lock)
		vp_chaos_start(MAXT + 9, 50, handler_section);
	vp_watchdog_start(30000, confirm_stuck);

	int targets[16], nt = 0;
	for (int t = 6; t < max_live && nt < 15; t = t * 2 - 1)
		targets[nt++] = t;
	targets[nt++] = max_live;
	size_t prev_cap_same = 0;
	uint64_t waves = 0, census_ok = 0;
	for (int ti = 0; ti < nt; ti++) {
		for (int rep = 0; rep < repeats; rep++) {
			int n = targets[ti];
			wave_live_target = n;
			VP_STORE(wave_arrived, 0);
			VP_STORE(wave_go, 0);
			for (int i = 0; i < n; i++) {
				wts[i].idx = i;
				vp_rng_init(&wts[i].rng, vp_opt.seed, 0x3a7e + (uint64_t) waves, (uint64_t) i);
				wts[i].slot = NULL;
				pthread_create(&wts[i].tid, NULL, wave_main, &wts[i]);
			}
			/* all live at once */
			uint64_t t0 = vp_now_ns();
			while (VP_LOAD(wave_arrived) < n && vp_now_ns() - t0 < 60000000000ULL && !vp_nviolations())
				usleep(200);
			usleep((useconds_t) hold_ms * 1000);
			/* census with every wave thread live */
			vp_peek_bp_arena_snapshot(&ai);
			int expect_live = n + (int) base.total_used;
			/* updaters never enter a read-side section: they are not registered */
			if (VP_LOAD(wave_arrived) == n) {
				if ((int) ai.total_used != expect_live || ai.registry_len != expect_live)
					vp_violation("bp-census-mismatch-live",
						     "%d live reader threads but arena says used=%zu registry=%d (chunks=%d cap=%zu)",
						     expect_live, ai.total_used, ai.registry_len, ai.nchunks, ai.total_cap);
				if (ai.used_mismatch || ai.alloc_without_tid || ai.free_slot_active)
					vp_violation("bp-arena-inconsistent",
						     "used_mismatch=%d alloc_without_tid=%d free_slot_active=%d",
						     ai.used_mismatch, ai.alloc_without_tid, ai.free_slot_active);
				/* capacities: first chunk 8, each growth doubles (in place: same chunk; else new chunk of 2x) */
				for (int c = 0; c < ai.nchunks && c < VP_BP_MAX_CHUNKS; c++) {
					size_t cap = ai.chunk_cap[c];
					if (cap < 8 || (cap & (cap - 1)))
						vp_violation("bp-chunk-capacity", "chunk %d capacity %zu", c, cap);
				}
				if (ai.total_cap < (size_t) expect_live)
					vp_violation("bp-capacity-below-live", "cap=%zu live=%d", ai.total_cap, expect_live);
				census_ok++;
				vp_sig_add("growth=%d:live=%d:chunks=%d:cap=%zu", growth, n, ai.nchunks, ai.total_cap);
				if (waves < 3)
					vp_sample_add("wave live=%d: chunks=%d caps=[%zu,%zu,%zu,...] used=%zu registry=%d",
						      n, ai.nchunks, ai.chunk_cap[0], ai.chunk_cap[1], ai.chunk_cap[2],
						      ai.total_used, ai.registry_len);
			}
			VP_STORE(wave_go, 1);
			for (int i = 0; i < n; i++)
				pthread_join(wts[i].tid, NULL);
			waves++;
			/* quiescent census: all wave threads gone */
			vp_peek_bp_arena_snapshot(&ai);
			if (ai.total_used != base.total_used || ai.registry_len != base.registry_len)
				vp_violation("bp-census-mismatch-after-exit",
					     "after all %d wave threads exited: used=%zu registry=%d, baseline used=%zu registry=%d",
					     n, ai.total_used, ai.registry_len, base.total_used, base.registry_len);
			if (ai.used_mismatch || ai.free_slot_active)
				vp_violation("bp-arena-inconsistent", "after exit: used_mismatch=%d free_slot_active=%d",
					     ai.used_mismatch, ai.free_slot_active);
			if (rep > 0 && prev_cap_same && ai.total_cap != prev_cap_same)
				vp_violation("bp-slots-not-reused",
					     "second wave with the same live count (%d) grew the arena from %zu to %zu slots",
					     n, prev_cap_same, ai.total_cap);
			prev_cap_same = ai.total_cap;
			if (vp_nviolations())
				goto out;
		}
		prev_cap_same = 0;
	}
out:
	VP_STORE(stop_updaters, 1);
	for (int i = 0; i < n_upd; i++)
		pthread_join(upd[i], NULL);
	vp_chaos_stop();
	vp_watchdog_stop();
	vp_peek_bp_arena_snapshot(&ai);
	if ((size_t) n_distinct > ai.total_cap)
		vp_violation("bp-more-slot-addresses-than-capacity", "%d distinct slot addresses, capacity %zu", n_distinct, ai.total_cap);
#if !(VP_ASAN || VP_TSAN)
	vp_quar_drain(&quar);
#endif
	vp_counter_add("evaluations", census_ok + waves);
	vp_counter_add("nontrivial", census_ok);
	vp_counter_add("waves", waves);
	vp_counter_add("sections", sections_total);
	vp_counter_add("slot_rechecks", slot_rechecks);
	vp_counter_add("gp_calls", gp_calls);
	vp_counter_add("handler_sections", handler_sections);
	vp_counter_add("distinct_slot_addresses", (uint64_t) n_distinct);
	vp_counter_add("mask_checks", mask_checks);
	vp_counter_add("signals_in_register_window", sig_in_register_window);
	vp_counter_add("mremap_calls", mremap_calls);
	vp_counter_add("mremap_forced_fail", mremap_forced_fail);
	vp_counter_add("mremap_inplace_ok", mremap_inplace_ok);
	vp_counter_add("mmap_reserved", mmap_reserved);
	vp_counter_add("final_chunks", (uint64_t) ai.nchunks);
	vp_counter_add("final_capacity", ai.total_cap);
	return vp_finish();
}
#endif
